#!/usr/bin/env python3
"""Must-fail corpus: applies each seeded change under /verif/seeded/<id>/patch.diff to /repo, runs the property's
check, expects exit 1 with a VIOLATION line, and restores /repo (git checkout) straight afterwards.
usage: selftest.py [id-or-property ...]    (no argument: all)"""
import json, os, subprocess, sys, glob

def sh(cmd):
    return subprocess.run(cmd, shell=True, capture_output=True, text=True)

want = sys.argv[1:]
rows = []
dirty = sh("git -C /repo status --porcelain").stdout.strip()
if dirty:
    print("refusing to run: /repo has uncommitted changes:\n" + dirty); sys.exit(2)
for d in sorted(glob.glob("/verif/seeded/*/")):
    if not os.path.exists(d + "meta.json"):
        continue
    meta = json.load(open(d + "meta.json"))
    if want and meta["id"] not in want and meta["property"] not in want:
        continue
    prop = meta["property"]
    r = sh(f"git -C /repo apply {d}patch.diff")
    if r.returncode != 0:
        rows.append((meta["id"], prop, "PATCH-DOES-NOT-APPLY", "")); continue
    try:
        c = sh(f"cd /verif && ./check {prop} quick")
        viol = [l for l in c.stdout.splitlines() if l.startswith("VIOLATION")]
        status = "caught" if (c.returncode == 1 and viol) else f"MISSED (exit {c.returncode})"
        rows.append((meta["id"], prop, status, viol[0] if viol else ""))
    finally:
        sh("git -C /repo checkout -- . && git -C /repo clean -fdq")
    # the evidence file of this property was overwritten by the mutated run: refresh it on the clean tree
    sh(f"cd /verif && ./check {prop} quick")
for row in rows:
    print("%-8s %-4s %-22s %s" % row)
missed = [r for r in rows if not r[2].startswith("caught")]
print(f"{len(rows) - len(missed)}/{len(rows)} seeded changes caught")
sys.exit(1 if missed else 0)
