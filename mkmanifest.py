#!/usr/bin/env python3
"""Regenerates /verif/MANIFEST.json from the table below (kept in sync with DESIGN.md §6/§7)."""
import json, subprocess, os

TECH = "contracts (//@ comments) + VCs by symbolic execution of go/ssa + SMT (z3 4.8/5.1, cvc5 raced)"

# property -> (claimed?, level text, level note / reason)
P = {}

def claim(pid, text, note, ref):
    P[pid] = dict(claimed=True, text=text, note=note, ref=ref)

def na(pid, reason):
    P[pid] = dict(claimed=False, reason=reason)

exec(open(os.path.join(os.path.dirname(os.path.abspath(__file__)), "manifest_table.py")).read())

def hook_commits():
    try:
        out = subprocess.run(["git", "-C", "/repo", "log", "--format=%H %s"], capture_output=True, text=True).stdout
    except Exception:
        return []
    return [l.split()[0] for l in out.splitlines() if " verif:" in l or l.split(" ", 1)[1].startswith("verif:")]

checks, nas = [], []
for pid in sorted(P):
    p = P[pid]
    if p["claimed"]:
        checks.append({
            "property_id": pid,
            "quick_cmd": f"./check {pid} quick",
            "thorough_cmd": f"./check {pid} thorough",
            "evidence_file": f"/verif/evidence/{pid}.json",
            "replay_cmd_template": "./check --replay {path}",
            "engine": "govc",
            "level_claimed": {"category": "proof", "text": p["text"], "design_ref": p["ref"]},
            "level_note": p["note"],
            "technique": TECH,
        })
    else:
        nas.append({"property_id": pid, "reason": p["reason"]})

m = {
    "version": 1,
    "setup_cmd": "cd /verif/govc && GOFLAGS=-mod=mod GOPROXY=off GOSUMDB=off GOTOOLCHAIN=local go build -o /verif/bin/govc .",
    "hooks": {
        "guard": "verif",
        "enable": "-tags verif (adds only the comment-only contract files pkg/*/verif_contracts.go to package loading)",
        "baseline_off_cmd": "cd /repo && GOFLAGS=-mod=mod GOPROXY=off GOSUMDB=off go test -vet=off -count=1 -timeout 25m ./...",
        "source_commits": hook_commits(),
        "add_only": True,
    },
    "engines": [{
        "name": "govc", "path": "/verif/govc",
        "serves_properties": [c["property_id"] for c in checks],
        "kind_free_text": "contract-based deductive verifier for Go written for this task: contracts in comment-only files, "
                          "verification conditions from forward symbolic execution of go/ssa (bit-vector integers, Burstall heap), discharged by SMT",
    }],
    "checks": checks,
    "not_applicable": nas,
    "notes": "Exit 0: every obligation generated from the current tree that is in the baseline of proved obligations is discharged. "
             "Exit 1 + VIOLATION: a baseline obligation failed (with replay when the model replays on the real code, else no-failing-input-found). "
             "Exit 2: machinery broken (vacuity guard, load failure). See DESIGN.md.",
}
json.dump(m, open(os.path.join(os.path.dirname(os.path.abspath(__file__)), "MANIFEST.json"), "w"), indent=1)
print("claimed:", [c["property_id"] for c in checks], "n/a:", [n["property_id"] for n in nas])
