package main

// Ground instantiation of quantified assumptions.
//
// SMT solvers handle our quantified path conditions poorly once arrays, bit-vectors, uninterpreted functions and
// (for C19) non-linear reals meet. Most obligations only need the quantified invariants at a handful of program
// values (the loop index, the key just read from a map, a ghost witness). For a hard obligation we therefore build a
// quantifier-free *reduced* query: the quantifier-free part of the path condition plus instances of the universally
// quantified assumptions at candidate program values, against the goal with its outer universal quantifiers replaced
// by fresh constants. Dropping assumptions and instantiating universals only weakens the hypotheses, so `unsat` for
// the reduced query is a proof of the original obligation.

import (
	"fmt"
	"go/types"
	"sort"
	"strings"
)

type qVar struct {
	Name string
	T    types.Type
	L    []*Term // bound variables (one per leaf)
}

type qInfo struct {
	Vars []qVar
	Body *Term
}

var quantInfo = map[*Term]*qInfo{}

// candidate program values (typed) gathered when an obligation is emitted
type candSet struct {
	vals []Val
}

func (e *Engine) collectCands(st *State) *candSet {
	cs := &candSet{}
	seen := map[string]bool{}
	add := func(v Val) {
		if v.T == nil || len(v.L) == 0 || len(v.L) > 12 {
			return
		}
		switch v.T.Underlying().(type) {
		case *types.Basic, *types.Struct, *types.Pointer, *types.Slice, *types.Map, *types.Interface, *types.Array, *types.Chan, *types.Signature:
		default:
			return // e.g. ssa's opaque iterator type
		}
		k := typeName(v.T)
		for _, l := range v.L {
			if l.hasBound {
				return
			}
			k += fmt.Sprintf("#%d", l.id)
		}
		if seen[k] {
			return
		}
		seen[k] = true
		cs.vals = append(cs.vals, v)
	}
	// deterministic order (map iteration order would make the capped candidate lists, and with them the verdicts, vary
	// from run to run)
	var names []string
	for k := range st.env {
		names = append(names, k)
	}
	sort.Strings(names)
	for _, k := range names {
		add(st.env[k])
	}
	for i := len(st.stack) - 1; i >= 0 && i >= len(st.stack)-3; i-- {
		fr := st.stack[i]
		type rv struct {
			key string
			v   Val
		}
		var regs []rv
		for r, v := range fr.regs {
			regs = append(regs, rv{r.Name() + "@" + fmt.Sprint(r.Pos()), v})
		}
		sort.Slice(regs, func(a, b int) bool { return regs[a].key < regs[b].key })
		n := 0
		for _, r := range regs {
			v := r.v
			if _, isTuple := v.T.(*types.Tuple); isTuple {
				tp := v.T.(*types.Tuple)
				for k := 0; k < tp.Len(); k++ {
					add(v.tupleElem(k))
				}
				continue
			}
			add(v)
			n++
			if n > 400 {
				break
			}
		}
	}
	return cs
}

func sameSorts(a []*Term, ss []*Sort) bool {
	if len(a) != len(ss) {
		return false
	}
	for i := range a {
		if a[i].S != ss[i] {
			return false
		}
	}
	return true
}

// candidatesFor returns leaf vectors usable for a bound variable of type T.
func (cs *candSet) candidatesFor(v qVar, extra []Val) [][]*Term {
	var out [][]*Term
	ss := make([]*Sort, len(v.L))
	for i, b := range v.L {
		ss[i] = b.S
	}
	seen := map[string]bool{}
	add := func(L []*Term) {
		k := ""
		for _, l := range L {
			k += fmt.Sprintf("#%d", l.id)
		}
		if !seen[k] {
			seen[k] = true
			out = append(out, L)
		}
	}
	isInt := len(v.L) == 1 && v.L[0].S.Kind == SBV && isInteger(v.T)
	for _, c := range append(append([]Val{}, extra...), cs.vals...) {
		if !sameSorts(c.L, ss) {
			continue
		}
		if isInt {
			if !isInteger(c.T) {
				continue
			}
		} else if !types.Identical(types.Unalias(c.T).Underlying(), types.Unalias(v.T).Underlying()) && !types.Identical(c.T, v.T) {
			continue
		}
		add(c.L)
		if isInt {
			w := c.L[0].S.W
			add([]*Term{Add(c.L[0], BVConst(1, w))})
			add([]*Term{Sub(c.L[0], BVConst(1, w))})
		}
		if len(out) > 40 {
			break
		}
	}
	if isInt {
		add([]*Term{BVConst(0, v.L[0].S.W)})
	}
	return out
}

// skolemize replaces the outer universal quantifiers of a goal by fresh constants.
func skolemize(g *Term, extra *[]Val) *Term {
	switch g.Op {
	case OForall:
		qi := quantInfo[g]
		if qi == nil {
			return g
		}
		m := map[*Term]*Term{}
		for _, v := range qi.Vars {
			L := make([]*Term, len(v.L))
			for i, b := range v.L {
				L[i] = FreshVar("sk_"+v.Name, b.S)
				m[b] = L[i]
			}
			*extra = append(*extra, Val{v.T, L})
		}
		return skolemize(Subst(qi.Body, m), extra)
	case OImp:
		return Implies(g.Args[0], skolemize(g.Args[1], extra))
	case OAnd:
		as := make([]*Term, len(g.Args))
		for i, a := range g.Args {
			as[i] = skolemize(a, extra)
		}
		return And(as...)
	}
	return g
}

// peelGoal skolemizes the outer universal quantifiers of a goal and moves the antecedents of its outer implications
// to the hypotheses (where quantified ones are instantiated like any other assumption): proving H ==> G is proving G
// under H.
func peelGoal(g *Term, extra *[]Val, hyps *[]*Term) *Term {
	switch g.Op {
	case OForall:
		qi := quantInfo[g]
		if qi == nil {
			return g
		}
		m := map[*Term]*Term{}
		for _, v := range qi.Vars {
			L := make([]*Term, len(v.L))
			for i, b := range v.L {
				L[i] = FreshVar("sk_"+v.Name, b.S)
				m[b] = L[i]
			}
			*extra = append(*extra, Val{v.T, L})
		}
		return peelGoal(Subst(qi.Body, m), extra, hyps)
	case OImp:
		var flat func(t *Term)
		flat = func(t *Term) {
			if t.Op == OAnd {
				for _, a := range t.Args {
					flat(a)
				}
				return
			}
			*hyps = append(*hyps, t)
		}
		flat(g.Args[0])
		return peelGoal(g.Args[1], extra, hyps)
	case OAnd:
		return skolemize(g, extra)
	case OExists:
		// proving (exists x. P) is refuting (forall x. not P): the latter joins the hypotheses and is instantiated at the
		// candidate values like any other universal assumption
		if qi := quantInfo[g]; qi != nil {
			nb := Not(qi.Body)
			f := Forall(g.Bnd, nb)
			if f.Op == OForall {
				quantInfo[f] = &qInfo{Vars: qi.Vars, Body: nb}
				*hyps = append(*hyps, f)
				return False
			}
		}
	}
	return g
}

// instantiate returns ground consequences of an assumption p (positive universal quantifiers instantiated at candidates);
// quantifier-free assumptions are returned as they are; other quantified material is dropped.
func instantiate(p *Term, cs *candSet, extra []Val, budget *int) []*Term {
	if !hasQuant(p) {
		return []*Term{p}
	}
	switch p.Op {
	case OForall:
		qi := quantInfo[p]
		if qi == nil {
			return nil
		}
		// cartesian product of candidates, capped
		var cands [][][]*Term
		total := 1
		for _, v := range qi.Vars {
			c := cs.candidatesFor(v, extra)
			if len(c) == 0 {
				return nil
			}
			cands = append(cands, c)
			total *= len(c)
		}
		if total > 400 {
			// too many combinations: thin out each dimension
			for i := range cands {
				if len(cands[i]) > 8 {
					cands[i] = cands[i][:8]
				}
			}
		}
		var out []*Term
		idx := make([]int, len(cands))
		for {
			if *budget <= 0 {
				break
			}
			m := map[*Term]*Term{}
			for vi, v := range qi.Vars {
				L := cands[vi][idx[vi]]
				for i, b := range v.L {
					m[b] = L[i]
				}
			}
			inst := Subst(qi.Body, m)
			*budget--
			out = append(out, instantiate(inst, cs, extra, budget)...)
			// next tuple
			k := len(idx) - 1
			for k >= 0 {
				idx[k]++
				if idx[k] < len(cands[k]) {
					break
				}
				idx[k] = 0
				k--
			}
			if k < 0 {
				break
			}
		}
		return out
	case OImp:
		if hasQuant(p.Args[0]) {
			return nil
		}
		var out []*Term
		for _, x := range instantiate(p.Args[1], cs, extra, budget) {
			out = append(out, Implies(p.Args[0], x))
		}
		return out
	case OAnd:
		var out []*Term
		for _, a := range p.Args {
			out = append(out, instantiate(a, cs, extra, budget)...)
		}
		return out
	case OExists:
		// an assumed existential: name its witness (fresh constants); the witness becomes a candidate value for the
		// other universal assumptions (second round in groundQuery)
		qi := quantInfo[p]
		if qi == nil {
			return nil
		}
		m := map[*Term]*Term{}
		for _, v := range qi.Vars {
			L := make([]*Term, len(v.L))
			for i, b := range v.L {
				L[i] = FreshVar("wit_"+v.Name, b.S)
				m[b] = L[i]
			}
			instWitnesses = append(instWitnesses, Val{v.T, L})
		}
		return instantiate(Subst(qi.Body, m), cs, extra, budget)
	}
	return nil
}

var instWitnesses []Val

// groundQuery builds the quantifier-free reduced query of an obligation (nil if nothing was instantiated).
func groundQuery(o *Obligation, narrow bool) ([]*Term, *Term, bool) {
	if o.cands == nil {
		return nil, nil, false
	}
	var extra []Val
	var hyps []*Term
	goal := peelGoal(o.Goal, &extra, &hyps)
	cands := o.cands
	if narrow {
		// narrow level: only the goal's own skolem constants (and their neighbours, added by candidatesFor) are used
		if len(extra) == 0 {
			return nil, nil, false
		}
		cands = &candSet{}
	} else {
		extra = append(extra, termCands(append(append([]*Term{}, o.PC...), o.Goal), 40)...)
	}
	budget := 1500
	instWitnesses = nil
	var as []*Term
	any := len(hyps) > 0
	all := append(append([]*Term{}, o.PC...), hyps...)
	var quantified []*Term
	for _, p := range all {
		if hasQuant(p) {
			quantified = append(quantified, p)
			ins := instantiate(p, cands, extra, &budget)
			if len(ins) > 0 {
				any = true
			}
			as = append(as, ins...)
		} else {
			as = append(as, p)
		}
	}
	// second round: values that only appeared through the first round of instances (e.g. results of uninterpreted
	// contract functions applied to a skolem constant, witnesses of assumed existentials)
	if budget > 200 && len(quantified) > 0 {
		have := map[*Term]bool{}
		for _, v := range extra {
			have[v.L[0]] = true
		}
		more := append([]Val{}, instWitnesses...)
		instWitnesses = nil
		for _, v := range termCands(as, 80) {
			if !have[v.L[0]] && v.L[0].Op == OApp {
				more = append(more, v)
			}
		}
		if len(more) > 0 && len(more) <= 12 {
			b2 := budget
			if b2 > 600 {
				b2 = 600
			}
			empty := &candSet{}
			// the new values first, then the goal's own skolem constants (needed by inner quantifiers of an
			// assumption whose outer variable takes a new value)
			var sk []Val
			for _, v := range extra {
				if len(v.L) > 0 && v.L[0].Op == OVar && (strings.HasPrefix(v.L[0].Name, "sk_") || strings.HasPrefix(v.L[0].Name, "wit_")) {
					sk = append(sk, v)
				}
			}
			both := append(append([]Val{}, more...), sk...)
			for _, p := range quantified {
				as = append(as, instantiate(p, empty, both, &b2)...)
			}
		}
	}
	// heap-copy / havoc-frame facts (append, copy, elems() havoc) are quantified over a (reference, index) pair without
	// type information: instantiate them at the array indices that occur in the goal and in the instances so far
	{
		var heapQ []*Term
		for _, p := range all {
			heapQ = append(heapQ, untypedForalls(p)...)
		}
		if len(heapQ) > 0 {
			done := map[string]bool{}
			for round := 0; round < 3; round++ {
				added := false
				for qi, q := range heapQ {
					idx := selectIndices(append(append([]*Term{}, as...), goal), q.Bnd[0].S.W, 120)
					for _, t := range idx {
						k := fmt.Sprintf("%d/%d", qi, t.id)
						if done[k] || budget <= 0 {
							continue
						}
						done[k] = true
						budget--
						as = append(as, Subst(q.Args[0], map[*Term]*Term{q.Bnd[0]: t}))
						added = true
						any = true
					}
				}
				if !added {
					break
				}
			}
		}
	}
	if !any && goal == o.Goal {
		return nil, nil, false
	}
	return as, goal, true
}

// termCands: integer-sorted program values occurring in the formulas themselves (loop counters and other havoc'd
// 64-bit values that are no longer in any live frame, results of uninterpreted contract functions): a cheap
// substitute for E-matching.
func termCands(ts []*Term, max int) []Val {
	var loopV, ufA, other []*Term
	seen := map[*Term]bool{}
	var walk func(t *Term)
	walk = func(t *Term) {
		if t == nil || seen[t] {
			return
		}
		seen[t] = true
		if t.S != nil && t.S.Kind == SBV && t.S.W == 64 && !t.hasBound {
			switch t.Op {
			case OVar:
				if len(t.Args) == 0 && !isFreshRef(t) {
					if strings.HasPrefix(t.Name, "loop!") || strings.HasPrefix(t.Name, "sk_") {
						loopV = append(loopV, t)
					} else {
						other = append(other, t)
					}
				}
			case OApp:
				if strings.HasPrefix(t.Name, "uf!") {
					ufA = append(ufA, t)
				}
			}
		}
		for _, a := range t.Args {
			walk(a)
		}
		if t.Op == OForall || t.Op == OExists {
			if qi := quantInfo[t]; qi != nil {
				walk(qi.Body)
			}
		}
	}
	for _, t := range ts {
		walk(t)
	}
	// loop counters and contract-function results first: they are the usual witnesses
	var out []Val
	for _, grp := range [][]*Term{loopV, ufA, other} {
		for _, t := range grp {
			if len(out) >= max {
				return out
			}
			out = append(out, Val{types.Typ[types.Int], []*Term{t}})
		}
	}
	return out
}

// untypedForalls: top-level (possibly conjoined) universal assumptions over one bound bit-vector that carry no
// contract-level type information (built by the executor itself for block copies and frame conditions).
func untypedForalls(p *Term) []*Term {
	switch p.Op {
	case OForall:
		if quantInfo[p] == nil && len(p.Bnd) == 1 && p.Bnd[0].S.Kind == SBV && !p.hasBound {
			return []*Term{p}
		}
	case OAnd:
		var out []*Term
		for _, a := range p.Args {
			out = append(out, untypedForalls(a)...)
		}
		return out
	}
	return nil
}

// selectIndices: ground terms of the given bit width used as array indices.
func selectIndices(ts []*Term, width int, max int) []*Term {
	var out []*Term
	seen := map[*Term]bool{}
	have := map[*Term]bool{}
	var walk func(t *Term)
	walk = func(t *Term) {
		if t == nil || seen[t] {
			return
		}
		seen[t] = true
		if (t.Op == OSelect || t.Op == OStore) && len(t.Args) >= 2 {
			ix := t.Args[1]
			if ix.S != nil && ix.S.Kind == SBV && ix.S.W == width && !ix.hasBound && !have[ix] && len(out) < max {
				have[ix] = true
				out = append(out, ix)
			}
		}
		for _, a := range t.Args {
			walk(a)
		}
	}
	for _, t := range ts {
		walk(t)
	}
	return out
}
