package main

// Executor values: every Go value is a vector of SMT leaf terms laid out by its type.

import (
	"fmt"
	"go/types"
	"regexp"
	"strings"

	"golang.org/x/tools/go/types/typeutil"
)

type Val struct {
	T types.Type
	L []*Term
}

var Ref64 = BV(64)
var Tag32 = BV(32)

var byteRe = regexp.MustCompile(`\bbyte\b`)
var runeRe = regexp.MustCompile(`\brune\b`)

func typeName(T types.Type) string {
	if s, ok := typeNameCache.At(T).(string); ok {
		return s
	}
	s := typeName0(T)
	s = byteRe.ReplaceAllString(s, "uint8")
	s = runeRe.ReplaceAllString(s, "int32")
	typeNameCache.Set(T, s)
	return s
}

var typeNameCache typeutil.Map

func typeName0(T types.Type) string {
	T = types.Unalias(T)
	return types.TypeString(T, func(p *types.Package) string {
		path := p.Path()
		if i := strings.LastIndex(path, "/"); i >= 0 {
			// keep it unique enough: last two elements for internal packages
			return path[i+1:]
		}
		return path
	})
}

var leafCountCache typeutil.Map

// leafSorts returns the SMT sorts of the flattened register representation of T.
func leafSorts(T types.Type) []*Sort {
	if v := leafCountCache.At(T); v != nil {
		return v.([]*Sort)
	}
	var out []*Sort
	switch u := T.Underlying().(type) {
	case *types.Basic:
		if u.Kind() == types.Invalid {
			out = []*Sort{}
			break
		}
		out = []*Sort{basicSort(u)}
	case *types.Pointer, *types.Map, *types.Chan, *types.Signature:
		out = []*Sort{Ref64}
	case *types.Slice:
		out = []*Sort{Ref64, Ref64, Ref64, Ref64}
	case *types.Interface:
		out = []*Sort{Tag32, Ref64}
	case *types.Struct:
		for i := 0; i < u.NumFields(); i++ {
			out = append(out, leafSorts(u.Field(i).Type())...)
		}
	case *types.Array:
		if u.Len() > 64 {
			panic(unsupported("array value too large: " + typeName(T)))
		}
		es := leafSorts(u.Elem())
		for i := int64(0); i < u.Len(); i++ {
			out = append(out, es...)
		}
	case *types.Tuple:
		for i := 0; i < u.Len(); i++ {
			out = append(out, leafSorts(u.At(i).Type())...)
		}
	default:
		panic(unsupported(fmt.Sprintf("type %s (%T)", typeName(T), u)))
	}
	if out == nil {
		out = []*Sort{}
	}
	leafCountCache.Set(T, out)
	return out
}

func basicSort(b *types.Basic) *Sort {
	switch b.Kind() {
	case types.Bool, types.UntypedBool:
		return BoolSort
	case types.Int8, types.Uint8:
		return BV(8)
	case types.Int16, types.Uint16:
		return BV(16)
	case types.Int32, types.Uint32, types.UntypedRune:
		return BV(32)
	case types.Int, types.Uint, types.Int64, types.Uint64, types.Uintptr, types.UntypedInt, types.UnsafePointer:
		return BV(64)
	case types.Float32, types.Float64, types.UntypedFloat:
		return RealSort
	case types.String, types.UntypedString:
		return StrSort
	case types.UntypedNil:
		return Ref64
	}
	panic(unsupported("basic type " + b.Name()))
}

func isSigned(T types.Type) bool {
	if b, ok := T.Underlying().(*types.Basic); ok {
		return b.Info()&types.IsInteger != 0 && b.Info()&types.IsUnsigned == 0
	}
	return false
}
func isInteger(T types.Type) bool {
	if b, ok := T.Underlying().(*types.Basic); ok {
		return b.Info()&types.IsInteger != 0
	}
	return false
}
func isFloat(T types.Type) bool {
	if b, ok := T.Underlying().(*types.Basic); ok {
		return b.Info()&types.IsFloat != 0
	}
	return false
}
func isString(T types.Type) bool {
	if b, ok := T.Underlying().(*types.Basic); ok {
		return b.Info()&types.IsString != 0
	}
	return false
}
func isBool(T types.Type) bool {
	if b, ok := T.Underlying().(*types.Basic); ok {
		return b.Info()&types.IsBoolean != 0
	}
	return false
}
func isIface(T types.Type) bool { _, ok := T.Underlying().(*types.Interface); return ok }
func isPointer(T types.Type) bool {
	_, ok := T.Underlying().(*types.Pointer)
	return ok
}

type unsupportedErr struct{ msg string }

func (u unsupportedErr) Error() string { return "unsupported: " + u.msg }
func unsupported(msg string) error     { return unsupportedErr{msg} }

// zeroVal builds the Go zero value of T.
func zeroVal(T types.Type) Val {
	ss := leafSorts(T)
	L := make([]*Term, len(ss))
	for i, s := range ss {
		L[i] = zeroOf(s)
	}
	return Val{T, L}
}

var emptyStr *Term

func zeroOf(s *Sort) *Term {
	switch s.Kind {
	case SBool:
		return False
	case SBV:
		return BVConst(0, s.W)
	case SReal:
		return RealConst(ratZero)
	case SUn:
		if s == StrSort {
			return strLit("")
		}
	}
	panic("zeroOf " + s.key())
}

// freshVal creates an unconstrained symbolic value of type T. Reference-like leaves get "ref!" names.
func freshVal(T types.Type, prefix string) Val {
	ss := leafSorts(T)
	L := make([]*Term, len(ss))
	kinds := leafKinds(T)
	for i, s := range ss {
		p := prefix
		if kinds[i] == lkRef || kinds[i] == lkPl {
			p = "ref!" + prefix
		}
		L[i] = FreshVar(p, s)
	}
	return Val{T, L}
}

// freshValAny: like freshVal, but references may denote any object, including ones allocated during the call
// (names without the "ref!" prefix, which marks references known to predate all allocations).
func freshValAny(T types.Type, prefix string) Val {
	ss := leafSorts(T)
	L := make([]*Term, len(ss))
	for i, s := range ss {
		L[i] = FreshVar("any!"+prefix, s)
	}
	return Val{T, L}
}

type leafKind int

const (
	lkScalar leafKind = iota
	lkRef             // pointer / slice backing / map / chan reference
	lkLen             // slice off/len/cap
	lkTag
	lkPl
	lkFunc
)

var leafKindCache typeutil.Map

func leafKinds(T types.Type) []leafKind {
	if v := leafKindCache.At(T); v != nil {
		return v.([]leafKind)
	}
	var out []leafKind
	switch u := T.Underlying().(type) {
	case *types.Basic:
		if u.Kind() == types.Invalid {
			out = []leafKind{}
			break
		}
		out = []leafKind{lkScalar}
	case *types.Pointer, *types.Map, *types.Chan:
		out = []leafKind{lkRef}
	case *types.Signature:
		out = []leafKind{lkFunc}
	case *types.Slice:
		out = []leafKind{lkRef, lkLen, lkLen, lkLen}
	case *types.Interface:
		out = []leafKind{lkTag, lkPl}
	case *types.Struct:
		for i := 0; i < u.NumFields(); i++ {
			out = append(out, leafKinds(u.Field(i).Type())...)
		}
	case *types.Array:
		es := leafKinds(u.Elem())
		for i := int64(0); i < u.Len(); i++ {
			out = append(out, es...)
		}
	case *types.Tuple:
		for i := 0; i < u.Len(); i++ {
			out = append(out, leafKinds(u.At(i).Type())...)
		}
	}
	if out == nil {
		out = []leafKind{}
	}
	leafKindCache.Set(T, out)
	return out
}

// field extraction on struct values
func (v Val) field(i int) Val {
	st := v.T.Underlying().(*types.Struct)
	off := 0
	for k := 0; k < i; k++ {
		off += len(leafSorts(st.Field(k).Type()))
	}
	ft := st.Field(i).Type()
	n := len(leafSorts(ft))
	return Val{ft, v.L[off : off+n]}
}
func (v Val) withField(i int, f Val) Val {
	st := v.T.Underlying().(*types.Struct)
	off := 0
	for k := 0; k < i; k++ {
		off += len(leafSorts(st.Field(k).Type()))
	}
	L := append([]*Term{}, v.L...)
	copy(L[off:], f.L)
	return Val{v.T, L}
}
func (v Val) tupleElem(i int) Val {
	tp := v.T.(*types.Tuple)
	off := 0
	for k := 0; k < i; k++ {
		off += len(leafSorts(tp.At(k).Type()))
	}
	et := tp.At(i).Type()
	n := len(leafSorts(et))
	return Val{et, v.L[off : off+n]}
}
func (v Val) arrayElem(i int) Val {
	at := v.T.Underlying().(*types.Array)
	n := len(leafSorts(at.Elem()))
	return Val{at.Elem(), v.L[i*n : (i+1)*n]}
}

func (v Val) t() *Term {
	if len(v.L) != 1 {
		panic(fmt.Sprintf("scalar expected, got %s with %d leaves", typeName(v.T), len(v.L)))
	}
	return v.L[0]
}

func boolVal(t *Term) Val { return Val{types.Typ[types.Bool], []*Term{t}} }
func intVal(t *Term, T types.Type) Val {
	return Val{T, []*Term{t}}
}

// slice accessors
func (v Val) sRef() *Term { return v.L[0] }
func (v Val) sOff() *Term { return v.L[1] }
func (v Val) sLen() *Term { return v.L[2] }
func (v Val) sCap() *Term { return v.L[3] }
func mkSlice(T types.Type, ref, off, ln, cp *Term) Val {
	return Val{T, []*Term{ref, off, ln, cp}}
}

// iface accessors
func (v Val) iTag() *Term { return v.L[0] }
func (v Val) iPl() *Term  { return v.L[1] }

// ---------- type tags ----------

var tagOf typeutil.Map
var typeOfTag = map[uint64]types.Type{}
var tagSeq uint64

func typeTag(T types.Type) *Term {
	T = types.Unalias(T)
	if v := tagOf.At(T); v != nil {
		return BVConst(v.(uint64), 32)
	}
	tagSeq++
	tagOf.Set(T, tagSeq)
	typeOfTag[tagSeq] = T
	return BVConst(tagSeq, 32)
}

// ---------- string literals ----------

var strLits = map[string]*Term{}
var strLitVal = map[*Term]string{}

func strLit(s string) *Term {
	if t, ok := strLits[s]; ok {
		return t
	}
	t := Var(fmt.Sprintf("strlit!%d", len(strLits)), StrSort)
	strLits[s] = t
	strLitVal[t] = s
	return t
}
func strLen(t *Term) *Term {
	if s, ok := strLitVal[t]; ok {
		return BVConst(uint64(len(s)), 64)
	}
	return App("strlen", Ref64, t)
}

// ---------- rich pointers ----------

type Step struct {
	Field string // field name, or "" for index step
	Idx   *Term  // index for index step
}

type PtrInfo struct {
	Ref  *Term  // object reference
	Root string // root cell prefix (type name of root object, "arr<T>", "box<T>")
	Path []Step
	Elem types.Type // pointee type
}

var ptrTab = map[*Term]*PtrInfo{}

func rootName(T types.Type) string { return typeName(T) }
func arrRoot(elem types.Type) string {
	return "arr<" + typeName(elem) + ">"
}
func boxRoot(T types.Type) string { return "box<" + typeName(T) + ">" }

// ptrInfo resolves a pointer value to its location description.
func ptrInfo(v Val) *PtrInfo {
	enc := v.t()
	if pi, ok := ptrTab[enc]; ok {
		return pi
	}
	pt, ok := v.T.Underlying().(*types.Pointer)
	if !ok {
		panic(unsupported("ptrInfo on non-pointer " + typeName(v.T)))
	}
	if mentionsRichPtr(enc) {
		panic(unsupported("pointer value merges interior pointers"))
	}
	el := pt.Elem()
	if at, ok := el.Underlying().(*types.Array); ok {
		return &PtrInfo{Ref: enc, Root: arrRoot(at.Elem()), Elem: el}
	}
	return &PtrInfo{Ref: enc, Root: rootName(el), Elem: el}
}

func mentionsRichPtr(t *Term) bool {
	if t.Op == OVar {
		_, ok := ptrTab[t]
		return ok
	}
	for _, a := range t.Args {
		if mentionsRichPtr(a) {
			return true
		}
	}
	return false
}

// mkPtr creates a pointer value for a location.
func mkPtr(pi *PtrInfo) Val {
	T := types.NewPointer(pi.Elem)
	if len(pi.Path) == 0 {
		// root pointer: enc is the ref itself, provided root naming agrees
		want := rootName(pi.Elem)
		if at, ok := pi.Elem.Underlying().(*types.Array); ok {
			want = arrRoot(at.Elem())
		}
		if want == pi.Root {
			return Val{T, []*Term{pi.Ref}}
		}
	}
	// interior (or differently rooted) pointer: canonical key for hash-consing
	var sb strings.Builder
	fmt.Fprintf(&sb, "%s#%d", pi.Root, pi.Ref.id)
	for _, s := range pi.Path {
		if s.Idx != nil {
			fmt.Fprintf(&sb, "[%d]", s.Idx.id)
		} else {
			sb.WriteString("." + s.Field)
		}
	}
	sb.WriteString("::" + typeName(pi.Elem))
	k := sb.String()
	if t, ok := ptrKey[k]; ok {
		return Val{T, []*Term{t}}
	}
	t := FreshVar("iptr", Ref64)
	ptrKey[k] = t
	ptrTab[t] = pi
	return Val{T, []*Term{t}}
}

var ptrKey = map[string]*Term{}

// ---------- closures ----------

type FuncInfo struct {
	Fn   interface{} // *ssa.Function
	Bind []Val
}

var funcTab = map[*Term]*FuncInfo{}
