package main

// Ghost byte streams as token sequences.
//
// Every io.Reader / io.Writer object carries a ghost token array (cells "tok|*" indexed by (stream ref, position))
// with a read cursor and a write cursor. A token is
//   HEAD(m, n)      a CBOR head (major type m, argument n) in shortest form
//   RAW(b)          a single raw byte (0x9f, 0xff, booleans, type codes ...)
//   BLK(n, cid)     n raw bytes whose content lives in the ghost byte array blk|data[cid, 0..n)
//   FIX(w, v)       a fixed-width big/little-endian integer (m = width in bytes, +0x80 for little endian)
//   EID(v...)       an endpoint ID as written by EndpointID.MarshalCbor (assumed inverse pair, one abstract token)
//   EXT(code, v)    an extension block value as written by ExtensionBlockManager.WriteBlock (assumed inverse pair)
// MultiWriter / TeeReader / bufio wrappers are fan-out tables kept per path.

import (
	"fmt"
	"go/types"
	"strings"

	"golang.org/x/tools/go/ssa"
)

const (
	tkHead = 1
	tkRaw  = 2
	tkBlk  = 3
	tkFix  = 4
	tkEID  = 5
	tkExt  = 6
)

type tokVal struct {
	kind, m, n, cid, aux *Term
}

func mkTok(kind uint64, m, n, cid *Term) tokVal {
	if m == nil {
		m = BVConst(0, 8)
	}
	if n == nil {
		n = BVConst(0, 64)
	}
	if cid == nil {
		cid = BVConst(0, 64)
	}
	return tokVal{BVConst(kind, 8), m, n, cid, BVConst(0, 64)}
}

func (e *Engine) tokLoad(st *State, s, pos *Term) tokVal {
	idx := []*Term{s, pos}
	return tokVal{
		kind: st.loadLeaf("tok|kind", idx, BV(8)),
		m:    st.loadLeaf("tok|m", idx, BV(8)),
		n:    st.loadLeaf("tok|n", idx, Ref64),
		cid:  st.loadLeaf("tok|cid", idx, Ref64),
		aux:  st.loadLeaf("tok|aux", idx, Ref64),
	}
}
func (e *Engine) tokStore(st *State, s, pos *Term, t tokVal) {
	idx := []*Term{s, pos}
	st.storeLeaf("tok|kind", idx, t.kind)
	st.storeLeaf("tok|m", idx, t.m)
	st.storeLeaf("tok|n", idx, t.n)
	st.storeLeaf("tok|cid", idx, t.cid)
	if t.aux == nil {
		t.aux = BVConst(0, 64)
	}
	st.storeLeaf("tok|aux", idx, t.aux)
}
func rposOf(st *State, s *Term) *Term { return posOf(st, "tokpos|r", s) }
func wposOf(st *State, s *Term) *Term { return posOf(st, "tokpos|w", s) }

func posOf(st *State, key string, s *Term) *Term {
	t := st.loadLeaf(key, []*Term{s}, Ref64)
	if t.Op == OSelect && t.Args[0].Op == OVar {
		// cursor of a stream that existed before the call: streams are shorter than 2^40 tokens
		st.assume(Ule(t, BVConst(maxLen, 64)))
	}
	return t
}

// streamRef returns the ghost stream object behind a reader/writer value (interface or pointer).
func streamRef(v Val) *Term {
	if isIface(v.T) {
		return v.iPl()
	}
	return v.L[0]
}

func (e *Engine) resolveAlias(st *State, s *Term) *Term {
	for i := 0; i < 8; i++ {
		a, ok := st.ghost["$alias/"+s.String()]
		if !ok {
			return s
		}
		s = a.L[0]
	}
	return s
}

// writeTok appends a token to stream s (fan-out through MultiWriters).
var discardRef = BVConst(freshRefBase-1, 64)

func (e *Engine) writeTok(st *State, s *Term, t tokVal) {
	direct := s
	s = e.resolveAlias(st, s)
	if s == discardRef {
		return
	}
	if mw, ok := st.ghost["$mw/"+s.String()]; ok {
		for _, sink := range mw.L {
			e.writeTok(st, sink, t)
		}
		return
	}
	// a token that was written directly (not through a buffering wrapper, whose writes succeed whatever the state of
	// the stream underneath) went to a stream that is not broken (see the contract builtin broken(w))
	if direct == s {
		st.assume(Not(App("uf!broken", BoolSort, s)))
	}
	w := wposOf(st, s)
	e.tokStore(st, s, w, t)
	st.storeLeaf("tokpos|w", []*Term{s}, Add(w, BVConst(1, 64)))
	wb := st.loadLeaf("tokpos|wb", []*Term{s}, Ref64)
	st.storeLeaf("tokpos|wb", []*Term{s}, Add(wb, tokByteLen(t)))
}

// tokByteLen is the number of bytes a token stands for.
func tokByteLen(t tokVal) *Term {
	hl := Ite(Ult(t.n, BVConst(24, 64)), BVConst(1, 64),
		Ite(Ult(t.n, BVConst(1<<8, 64)), BVConst(2, 64),
			Ite(Ult(t.n, BVConst(1<<16, 64)), BVConst(3, 64),
				Ite(Ult(t.n, BVConst(1<<32, 64)), BVConst(5, 64), BVConst(9, 64)))))
	abs := App("abstoklen", Ref64, t.aux, t.cid)
	return Ite(Eq(t.kind, BVConst(tkHead, 8)), hl,
		Ite(Eq(t.kind, BVConst(tkRaw, 8)), BVConst(1, 64),
			Ite(Eq(t.kind, BVConst(tkBlk, 8)), t.n,
				Ite(Eq(t.kind, BVConst(tkFix, 8)), ZExt(BAnd(t.m, BVConst(0x7f, 8)), 64), abs))))
}

// readTok consumes the next token of stream s (copying it to the sink of a TeeReader).
func (e *Engine) readTok(st *State, s *Term) tokVal {
	s = e.resolveAlias(st, s)
	if tee, ok := st.ghost["$tee/"+s.String()]; ok {
		t := e.readTok(st, tee.L[0])
		e.writeTok(st, tee.L[1], t)
		return t
	}
	r := rposOf(st, s)
	t := e.tokLoad(st, s, r)
	if t.kind.Op == OConst && t.kind.Val == tkBlk && !(t.n.Op == OConst) {
		// A decoder reads structured data out of a block of bytes whose content the model does not know (a buffer made
		// from a byte slice parameter): the bytes of the block re-tokenise in an arbitrary way. From here on the stream is
		// an unknown token sequence (reader-defined tokenisation, as for any network reader).
		e.retokenize(st, s, r)
		st.note("raw byte buffer read as CBOR: content treated as an arbitrary token stream")
		t = e.tokLoad(st, s, r)
	}
	st.storeLeaf("tokpos|r", []*Term{s}, Add(r, BVConst(1, 64)))
	rb := st.loadLeaf("tokpos|rb", []*Term{s}, Ref64)
	st.storeLeaf("tokpos|rb", []*Term{s}, Add(rb, tokByteLen(t)))
	return t
}

// ioFail forks a path on which the I/O operation fails with an arbitrary non-nil error; the current path continues
// as the successful one. mk builds the result value for the failing path.
func (e *Engine) ioFail(st *State, fr *Frame, in ssa.Instruction, bind ssa.Value, mk func(o *State, err Val) Val) {
	if fr == nil || in == nil {
		return
	}
	if _, ok := st.ghost["$noioerr"]; ok {
		return
	}
	o := st.clone()
	o.trace = append(o.trace, "ioerr")
	err := freshError(o)
	res := mk(o, err)
	of := o.top()
	if bind != nil {
		res.T = bind.Type()
		of.regs[bind] = res
	}
	e.work = append(e.work, o)
}

func tupleVal(T types.Type, parts ...Val) Val {
	var L []*Term
	for _, p := range parts {
		L = append(L, p.L...)
	}
	return Val{T, L}
}

func nilError() Val { return Val{errorType(), []*Term{BVConst(0, 32), BVConst(0, 64)}} }

// flagError builds the error value cboring.Flag(k).
func (e *Engine) flagError(st *State, k uint64) Val {
	p := e.pkgs["github.com/dtn7/cboring"]
	if p == nil {
		panic(unsupported("cboring not loaded"))
	}
	ft := p.Pkg.Scope().Lookup("Flag").Type()
	return e.makeInterface(st, Val{ft, []*Term{BVConst(k, 8)}}, errorType())
}

// headFirstByte is the first byte of the shortest-form head (m, n).
func headFirstByte(m, n *Term) *Term {
	adds := Ite(Ult(n, BVConst(24, 64)), Extract(7, 0, n),
		Ite(Ult(n, BVConst(1<<8, 64)), BVConst(24, 8),
			Ite(Ult(n, BVConst(1<<16, 64)), BVConst(25, 8),
				Ite(Ult(n, BVConst(1<<32, 64)), BVConst(26, 8), BVConst(27, 8)))))
	return BOr(m, adds)
}

// blkContent copies n bytes of slice data into a fresh ghost content array and returns its id.
func (e *Engine) blkContent(st *State, data Val) *Term {
	cid := st.alloc()
	key := arrRoot(types.Typ[types.Uint8]) + "|[]"
	n := data.sLen()
	if n.Op == OConst && n.Val <= 16 {
		for i := uint64(0); i < n.Val; i++ {
			b := st.loadLeaf(key, []*Term{data.sRef(), Add(data.sOff(), BVConst(i, 64))}, BV(8))
			st.storeLeaf("blk|data", []*Term{cid, BVConst(i, 64)}, b)
		}
		return cid
	}
	// symbolic length: blk|data' = blk|data with [cid, j) := data[j]
	src := st.cellArr(key, 2, BV(8))
	old := st.cellArr("blk|data", 2, BV(8))
	nw := FreshVar("Hb|blk", old.S)
	j := Bound("j", BV(128))
	jr, ji := Extract(127, 64, j), Extract(63, 0, j)
	in := And(Eq(jr, cid), Ult(ji, n))
	st.assume(Forall([]*Term{j}, Eq(Select(nw, j), Ite(in, Select(src, Concat(data.sRef(), Add(data.sOff(), ji))), Select(old, j)))))
	st.mem["blk|data"] = nw
	return cid
}

// blkRead copies n bytes of ghost content cid into the byte slice dst (memory write).
func (e *Engine) blkRead(st *State, cid *Term, dst Val, n *Term) {
	key := arrRoot(types.Typ[types.Uint8]) + "|[]"
	if n.Op == OConst && n.Val <= 16 {
		for i := uint64(0); i < n.Val; i++ {
			b := st.loadLeaf("blk|data", []*Term{cid, BVConst(i, 64)}, BV(8))
			st.storeLeaf(key, []*Term{dst.sRef(), Add(dst.sOff(), BVConst(i, 64))}, b)
		}
		return
	}
	src := st.cellArr("blk|data", 2, BV(8))
	old := st.cellArr(key, 2, BV(8))
	nw := FreshVar("Hb|"+key, old.S)
	j := Bound("j", BV(128))
	jr, ji := Extract(127, 64, j), Extract(63, 0, j)
	in := And(Eq(jr, dst.sRef()), Ule(dst.sOff(), ji), Ult(Sub(ji, dst.sOff()), n))
	st.assume(Forall([]*Term{j}, Eq(Select(nw, j), Ite(in, Select(src, Concat(cid, Sub(ji, dst.sOff()))), Select(old, j)))))
	st.mem[key] = nw
	st.written[key] = true
}

func byteSliceT() types.Type { return types.NewSlice(types.Typ[types.Uint8]) }

// ---------- models ----------

func streamModels(name string) modelFn {
	switch name {
	case "github.com/dtn7/cboring.WriteMajors":
		return func(e *Engine, st *State, fr *Frame, fn *ssa.Function, args []Val, in ssa.Instruction) (Val, bool) {
			e.ioFail(st, fr, in, bindOf(in), func(o *State, err Val) Val { return err })
			e.writeTok(st, streamRef(args[2]), mkTok(tkHead, args[0].t(), args[1].t(), nil))
			return nilError(), true
		}
	case "github.com/dtn7/cboring.ReadMajors":
		return func(e *Engine, st *State, fr *Frame, fn *ssa.Function, args []Val, in ssa.Instruction) (Val, bool) {
			RT := fn.Signature.Results()
			mk := func(m, n *Term, err Val) Val { return Val{RT, append([]*Term{m, n}, err.L...)} }
			e.ioFail(st, fr, in, bindOf(in), func(o *State, err Val) Val {
				return mk(FreshVar("m", BV(8)), FreshVar("n", Ref64), err)
			})
			t := e.readTok(st, streamRef(args[0]))
			isRaw := Eq(t.kind, BVConst(tkRaw, 8))
			isIndef := And(isRaw, Eq(t.n, BVConst(0x9f, 64)))
			isBreak := And(isRaw, Eq(t.n, BVConst(0xff, 64)))
			// fork the two flag outcomes
			for k, c := range []*Term{isIndef, isBreak} {
				if c.IsFalse() {
					continue
				}
				o := st.clone()
				o.assume(c)
				o.trace = append(o.trace, fmt.Sprintf("flag%d", k))
				if !o.dead && fr != nil {
					res := mk(BVConst(0, 8), BVConst(0, 64), e.flagError(o, uint64(k)))
					if b := bindOf(in); b != nil {
						res.T = b.Type()
						o.top().regs[b] = res
					}
					e.work = append(e.work, o)
				}
			}
			st.assume(Not(isIndef))
			st.assume(Not(isBreak))
			// reader-defined tokenisation: where the decoder reads a head, the input token is a head
			// (non-shortest-form heads are outside the token model: declared not decided)
			st.assume(Eq(t.kind, BVConst(tkHead, 8)))
			m, n := t.m, t.n
			st.assume(Eq(BAnd(m, BVConst(0x1F, 8)), BVConst(0, 8)))
			return mk(m, n, nilError()), true
		}
	case "github.com/dtn7/cboring.ReadRawBytes":
		return func(e *Engine, st *State, fr *Frame, fn *ssa.Function, args []Val, in ssa.Instruction) (Val, bool) {
			RT := fn.Signature.Results()
			l := args[0].t()
			e.ioFail(st, fr, in, bindOf(in), func(o *State, err Val) Val {
				d := freshVal(byteSliceT(), "rawerr")
				o.assumeRefsOld(d)
				return Val{RT, append(append([]*Term{}, d.L...), err.L...)}
			})
			// success requires l <= MaxInt32 (checked by the real code; larger values take the error path)
			st.assume(Ule(l, BVConst(0x7fffffff, 64)))
			t := e.readTok(st, streamRef(args[1]))
			ref := st.alloc()
			e.zeroSlice(st, types.Typ[types.Uint8], ref)
			data := mkSlice(byteSliceT(), ref, BVConst(0, 64), l, l)
			match := And(Eq(t.kind, BVConst(tkBlk, 8)), Eq(t.n, l))
			cid := Ite(match, t.cid, FreshVar("ref!anyblk", Ref64))
			e.blkRead(st, cid, data, l)
			return Val{RT, append(append([]*Term{}, data.L...), nilError().L...)}, true
		}
	case "io.ReadFull", "io.ReadAtLeast":
		return func(e *Engine, st *State, fr *Frame, fn *ssa.Function, args []Val, in ssa.Instruction) (Val, bool) {
			if e.byteMode() && name == "io.ReadFull" {
				return e.byteReadFull(st, fr, fn, args, in)
			}
			RT := fn.Signature.Results()
			buf := args[1]
			e.ioFail(st, fr, in, bindOf(in), func(o *State, err Val) Val {
				n := FreshVar("nread", Ref64)
				o.assume(Ult(n, Add(buf.sLen(), BVConst(1, 64))))
				e.havocRegion(o, types.Typ[types.Uint8], buf.sRef(), buf.sOff(), buf.sLen())
				return Val{RT, append([]*Term{n}, err.L...)}
			})
			e.readBytesInto(st, streamRef(args[0]), buf)
			return Val{RT, append([]*Term{buf.sLen()}, nilError().L...)}, true
		}
	case "io.CopyN":
		return func(e *Engine, st *State, fr *Frame, fn *ssa.Function, args []Val, in ssa.Instruction) (Val, bool) {
			RT := fn.Signature.Results()
			n := args[2].t()
			e.ioFail(st, fr, in, bindOf(in), func(o *State, err Val) Val {
				w := FreshVar("ncopied", Ref64)
				o.assume(Ult(w, n))
				e.havocStream(o, e.resolveAlias(o, streamRef(args[1])), false)
				e.havocStream(o, e.resolveAlias(o, streamRef(args[0])), true)
				return Val{RT, append([]*Term{w}, err.L...)}
			})
			// n <= 0 copies nothing
			if !Sle(n, BVConst(0, 64)).IsFalse() && fr != nil && in != nil {
				o := st.clone()
				o.assume(Sle(n, BVConst(0, 64)))
				if !o.dead {
					res := Val{RT, append([]*Term{BVConst(0, 64)}, nilError().L...)}
					if b := bindOf(in); b != nil {
						res.T = b.Type()
						o.top().regs[b] = res
					}
					e.work = append(e.work, o)
				}
				st.assume(Slt(BVConst(0, 64), n))
			}
			t := e.readTok(st, streamRef(args[1]))
			match := And(Eq(t.kind, BVConst(tkBlk, 8)), Eq(t.n, n))
			cid := Ite(match, t.cid, FreshVar("ref!anyblk", Ref64))
			m := Ite(match, t.m, BVConst(0, 8))
			e.writeTok(st, streamRef(args[0]), tokVal{BVConst(tkBlk, 8), m, n, cid, BVConst(0, 64)})
			return Val{RT, append([]*Term{n}, nilError().L...)}, true
		}
	case "io.WriteString":
		return func(e *Engine, st *State, fr *Frame, fn *ssa.Function, args []Val, in ssa.Instruction) (Val, bool) {
			RT := fn.Signature.Results()
			s := args[1].t()
			e.ioFail(st, fr, in, bindOf(in), func(o *State, err Val) Val {
				return Val{RT, append([]*Term{FreshVar("nw", Ref64)}, err.L...)}
			})
			// text content as an abstract id derived from the string
			e.writeTok(st, streamRef(args[0]), mkTok(tkBlk, BVConst(1, 8), strLen(s), App("strcid", Ref64, s)))
			return Val{RT, append([]*Term{strLen(s)}, nilError().L...)}, true
		}
	case "io.MultiWriter":
		return func(e *Engine, st *State, fr *Frame, fn *ssa.Function, args []Val, in ssa.Instruction) (Val, bool) {
			ws := args[0]
			if ws.sLen().Op != OConst {
				panic(unsupported("io.MultiWriter with a symbolic number of writers"))
			}
			ref := st.alloc()
			var sinks []*Term
			wt := ws.T.Underlying().(*types.Slice).Elem()
			for i := uint64(0); i < ws.sLen().Val; i++ {
				w := st.loadAt(e.elemPI(ws, BVConst(i, 64)), wt)
				sinks = append(sinks, streamRef(w))
			}
			st.ghost["$mw/"+ref.String()] = Val{nil, sinks}
			return Val{fn.Signature.Results().At(0).Type(), []*Term{typeTag(ghostStreamType("io.multiWriter")), ref}}, true
		}
	case "io.TeeReader":
		return func(e *Engine, st *State, fr *Frame, fn *ssa.Function, args []Val, in ssa.Instruction) (Val, bool) {
			ref := st.alloc()
			st.ghost["$tee/"+ref.String()] = Val{nil, []*Term{streamRef(args[0]), streamRef(args[1])}}
			return Val{fn.Signature.Results().At(0).Type(), []*Term{typeTag(ghostStreamType("io.teeReader")), ref}}, true
		}
	case "bufio.NewReader", "bufio.NewWriter", "bufio.NewReaderSize":
		return func(e *Engine, st *State, fr *Frame, fn *ssa.Function, args []Val, in ssa.Instruction) (Val, bool) {
			ref := st.alloc()
			st.ghost["$alias/"+ref.String()] = Val{nil, []*Term{streamRef(args[0])}}
			return Val{fn.Signature.Results().At(0).Type(), []*Term{ref}}, true
		}
	case "bytes.NewBuffer", "bytes.NewReader":
		return func(e *Engine, st *State, fr *Frame, fn *ssa.Function, args []Val, in ssa.Instruction) (Val, bool) {
			// a buffer holding the given bytes: one BLK token
			ref := st.alloc()
			data := args[0]
			cid := e.blkContent(st, data)
			e.tokStore(st, ref, BVConst(0, 64), mkTok(tkBlk, nil, data.sLen(), cid))
			st.storeLeaf("tokpos|w", []*Term{ref}, BVConst(1, 64))
			st.storeLeaf("tokpos|r", []*Term{ref}, BVConst(0, 64))
			return Val{fn.Signature.Results().At(0).Type(), []*Term{ref}}, true
		}
	case "(*bytes.Buffer).Write":
		// documented: "The return value n is the length of p; err is always nil."
		return func(e *Engine, st *State, fr *Frame, fn *ssa.Function, args []Val, in ssa.Instruction) (Val, bool) {
			_, had := st.ghost["$noioerr"]
			st.ghost["$noioerr"] = boolVal(True)
			r, ok := modelWrite(e, st, fr, fn, args, in)
			if !had {
				delete(st.ghost, "$noioerr")
			}
			return r, ok
		}
	case "(*bufio.Writer).Write":
		return modelWrite
	case "(*bytes.Buffer).Read", "(*bufio.Reader).Read", "(*bytes.Reader).Read":
		return modelRead
	case "(*bytes.Buffer).WriteByte":
		return func(e *Engine, st *State, fr *Frame, fn *ssa.Function, args []Val, in ssa.Instruction) (Val, bool) {
			e.writeTok(st, streamRef(args[0]), mkTok(tkRaw, nil, ZExt(args[1].t(), 64), nil))
			return nilError(), true
		}
	case "(*bytes.Buffer).Len":
		return func(e *Engine, st *State, fr *Frame, fn *ssa.Function, args []Val, in ssa.Instruction) (Val, bool) {
			s := e.resolveAlias(st, streamRef(args[0]))
			return Val{types.Typ[types.Int], []*Term{bufLen(st, s)}}, true
		}
	case "(*bytes.Buffer).Bytes":
		return func(e *Engine, st *State, fr *Frame, fn *ssa.Function, args []Val, in ssa.Instruction) (Val, bool) {
			s := e.resolveAlias(st, streamRef(args[0]))
			if d := Sub(wposOf(st, s), rposOf(st, s)); d.Op == OConst && d.Val == 1 {
				t := e.tokLoad(st, s, rposOf(st, s))
				if t.kind.Op == OConst && t.kind.Val == tkBlk {
					// exactly one block of raw bytes: the slice holds these bytes
					ref := st.alloc()
					e.zeroSlice(st, types.Typ[types.Uint8], ref)
					data := mkSlice(byteSliceT(), ref, BVConst(0, 64), t.n, FreshVar("cap", Ref64))
					st.assume(Ule(t.n, data.sCap()))
					st.assume(Ule(data.sCap(), BVConst(maxLen*2, 64)))
					e.blkRead(st, t.cid, data, t.n)
					st.ghost["$strsrc/"+ref.String()] = Val{nil, []*Term{Eq(t.m, BVConst(1, 8)), t.cid, BVConst(0, 64), t.n}}
					return data, true
				}
			}
			// the returned slice denotes the unread token range; its bytes are not modelled individually
			// (an "old" symbolic reference: contents unconstrained)
			ref := FreshVar("ref!bufbytes", Ref64)
			st.assume(Ult(ref, BVConst(freshRefBase, 64)))
			st.assume(Not(Eq(ref, BVConst(0, 64))))
			st.ghost["$bytesof/"+ref.String()] = Val{nil, []*Term{s, rposOf(st, s), wposOf(st, s)}}
			n := FreshVar("buflen", Ref64)
			st.assume(Ule(n, BVConst(maxLen, 64)))
			return mkSlice(byteSliceT(), ref, BVConst(0, 64), n, n), true
		}
	case "(*bytes.Buffer).Reset":
		return func(e *Engine, st *State, fr *Frame, fn *ssa.Function, args []Val, in ssa.Instruction) (Val, bool) {
			s := e.resolveAlias(st, streamRef(args[0]))
			st.storeLeaf("tokpos|r", []*Term{s}, wposOf(st, s))
			return Val{types.NewTuple(), nil}, true
		}
	case "hash/crc32.Checksum", "github.com/howeyc/crc16.Checksum":
		return func(e *Engine, st *State, fr *Frame, fn *ssa.Function, args []Val, in ssa.Instruction) (Val, bool) {
			data := args[0]
			rt := fn.Signature.Results().At(0).Type()
			w := leafSorts(rt)[0].W
			nm := "crc32c"
			if w == 16 {
				nm = "crc16x25"
			}
			if bo, ok := st.ghost["$bytesof/"+data.sRef().String()]; ok {
				s, from, to := bo.L[0], bo.L[1], bo.L[2]
				seq := e.tokSeq(st, s, from, to)
				return Val{rt, []*Term{App(nm+"_toks", BV(w), seq)}}, true
			}
			arr := st.cellArr(arrRoot(types.Typ[types.Uint8])+"|[]", 2, BV(8))
			return Val{rt, []*Term{App(nm+"_bytes", BV(w), arr, data.sRef(), data.sOff(), data.sLen())}}, true
		}
	case "(encoding/binary.bigEndian).PutUint16", "(encoding/binary.bigEndian).PutUint32", "(encoding/binary.bigEndian).PutUint64":
		return func(e *Engine, st *State, fr *Frame, fn *ssa.Function, args []Val, in ssa.Instruction) (Val, bool) {
			b, v := args[1], args[2].t()
			nb := uint64(v.S.W / 8)
			if in != nil {
				e.oblige(st, "index", e.siteName("index", in), Ule(BVConst(nb, 64), b.sLen()), in.Pos(), nil, "PutUintN needs len(b) >= N")
			}
			key := arrRoot(types.Typ[types.Uint8]) + "|[]"
			for i := uint64(0); i < nb; i++ {
				hi := int(v.S.W) - 1 - int(i)*8
				st.storeLeaf(key, []*Term{b.sRef(), Add(b.sOff(), BVConst(i, 64))}, Extract(hi, hi-7, v))
			}
			return Val{types.NewTuple(), nil}, true
		}
	}
	return nil
}

// tokSeq builds an abstract sequence value (nested uninterpreted cons) of the tokens s[from..to); the range must have
// a syntactically constant length on this path.
func (e *Engine) tokSeq(st *State, s, from, to *Term) *Term {
	d := Sub(to, from)
	seqS := UnSort("TokSeq")
	if d.Op != OConst || d.Val > 64 {
		// unknown length: an opaque sequence determined by the stream cells and the bounds
		return App("tokseq_opaque", seqS, s, from, to, st.cellArr("tok|kind", 2, BV(8)), st.cellArr("tok|m", 2, BV(8)), st.cellArr("tok|n", 2, Ref64), st.cellArr("tok|cid", 2, Ref64))
	}
	seq := App("tokseq_nil", seqS)
	for i := uint64(0); i < d.Val; i++ {
		t := e.tokLoad(st, s, Add(from, BVConst(i, 64)))
		// block tokens of small constant size are identified by their content, others by their content id;
		// heads, raw bytes and fixed-width integers carry no content id
		content := t.cid
		aux := t.aux
		if t.kind.Op == OConst {
			if t.kind.Val == tkHead || t.kind.Val == tkRaw || t.kind.Val == tkFix {
				content, aux = BVConst(0, 64), BVConst(0, 64)
			}
		} else {
			plain := Or(Eq(t.kind, BVConst(tkHead, 8)), Eq(t.kind, BVConst(tkRaw, 8)), Eq(t.kind, BVConst(tkFix, 8)))
			content = Ite(plain, BVConst(0, 64), content)
			aux = Ite(plain, BVConst(0, 64), aux)
		}
		if t.kind.Op == OConst && t.kind.Val == tkBlk && t.n.Op == OConst && t.n.Val <= 8 {
			packed := BVConst(0, 64)
			for j := uint64(0); j < t.n.Val; j++ {
				b := st.loadLeaf("blk|data", []*Term{t.cid, BVConst(j, 64)}, BV(8))
				packed = BOr(Shl(packed, BVConst(8, 64)), ZExt(b, 64))
			}
			content = packed
		}
		seq = App("tokseq_cons", seqS, seq, t.kind, t.m, t.n, content, aux)
	}
	return seq
}

func bindOf(in ssa.Instruction) ssa.Value {
	if v, ok := in.(ssa.Value); ok {
		return v
	}
	return nil
}

var ghostStreamTypes = map[string]types.Type{}

func ghostStreamType(name string) types.Type {
	if t, ok := ghostStreamTypes[name]; ok {
		return t
	}
	t := types.NewPointer(types.NewNamed(types.NewTypeName(0, nil, "govc."+name, nil), types.NewStruct(nil, nil), nil))
	ghostStreamTypes[name] = t
	return t
}

// readBytesInto fills buf completely from stream s: one BLK token of exactly len(buf) bytes, a FIX token of that
// width, or (len 1) a RAW byte / the first byte of a HEAD.
func (e *Engine) readBytesInto(st *State, s *Term, buf Val) {
	n := buf.sLen()
	if n.Op == OConst && n.Val == 0 {
		return
	}
	t := e.readTok(st, s)
	key := arrRoot(types.Typ[types.Uint8]) + "|[]"
	if n.Op == OConst && n.Val == 1 {
		isRaw := Eq(t.kind, BVConst(tkRaw, 8))
		isHead := Eq(t.kind, BVConst(tkHead, 8))
		isFix := And(Eq(t.kind, BVConst(tkFix, 8)), Eq(BAnd(t.m, BVConst(0x7f, 8)), BVConst(1, 8)))
		isBlk := And(Eq(t.kind, BVConst(tkBlk, 8)), Eq(t.n, BVConst(1, 64)))
		b := Ite(Or(isRaw, isFix), Extract(7, 0, t.n), Ite(isHead, headFirstByte(t.m, t.n),
			Ite(isBlk, st.loadLeaf("blk|data", []*Term{t.cid, BVConst(0, 64)}, BV(8)), FreshVar("anybyte", BV(8)))))
		st.storeLeaf(key, []*Term{buf.sRef(), buf.sOff()}, b)
		return
	}
	if n.Op == OConst && n.Val <= 8 {
		// fixed-width integer token read back as bytes
		isFix := And(Eq(t.kind, BVConst(tkFix, 8)), Eq(BAnd(t.m, BVConst(0x7f, 8)), BVConst(n.Val, 8)))
		le := Not(Eq(BAnd(t.m, BVConst(0x80, 8)), BVConst(0, 8)))
		isBlk := And(Eq(t.kind, BVConst(tkBlk, 8)), Eq(t.n, n))
		for i := uint64(0); i < n.Val; i++ {
			hiBE := int(n.Val*8) - 1 - int(i)*8
			hiLE := int(i)*8 + 7
			fb := Ite(le, Extract(hiLE, hiLE-7, t.n), Extract(hiBE, hiBE-7, t.n))
			bb := st.loadLeaf("blk|data", []*Term{t.cid, BVConst(i, 64)}, BV(8))
			b := Ite(isFix, fb, Ite(isBlk, bb, FreshVar("anybyte", BV(8))))
			st.storeLeaf(key, []*Term{buf.sRef(), Add(buf.sOff(), BVConst(i, 64))}, b)
		}
		return
	}
	match := And(Eq(t.kind, BVConst(tkBlk, 8)), Eq(t.n, n))
	cid := Ite(match, t.cid, FreshVar("ref!anyblk", Ref64))
	e.blkRead(st, cid, buf, n)
	// remember where these bytes came from: string(buf) of a text block written by io.WriteString is that string
	st.ghost["$strsrc/"+buf.sRef().String()] = Val{nil, []*Term{And(match, Eq(t.m, BVConst(1, 8))), cid, buf.sOff(), n}}
}

func modelWrite(e *Engine, st *State, fr *Frame, fn *ssa.Function, args []Val, in ssa.Instruction) (Val, bool) {
	RT := types.NewTuple(types.NewVar(0, nil, "n", types.Typ[types.Int]), types.NewVar(0, nil, "err", errorType()))
	p := args[1]
	e.ioFail(st, fr, in, bindOf(in), func(o *State, err Val) Val {
		n := FreshVar("nw", Ref64)
		o.assume(Ule(n, p.sLen()))
		return Val{RT, append([]*Term{n}, err.L...)}
	})
	s := streamRef(args[0])
	n := p.sLen()
	key := arrRoot(types.Typ[types.Uint8]) + "|[]"
	// a Write that succeeds was not on a broken stream (see the contract builtin broken(w))
	if e.resolveAlias(st, s) == s {
		st.assume(Not(App("uf!broken", BoolSort, s)))
	}
	if e.byteMode() {
		// byte-level writer: the bytes of p are appended at the end mark of the stream
		rs := e.resolveAlias(st, s)
		end := bsEnd(st, rs)
		if end.Op == OSelect {
			st.assume(Ule(end, BVConst(maxLen, 64))) // a stream holds a physically possible number of bytes
		}
		old := st.cellArr("bs|data", 2, BV(8))
		src := st.cellArr(key, 2, BV(8))
		nw := FreshVar("Hw|bs|data", old.S)
		j := Bound("j", BV(128))
		jr, ji := Extract(127, 64, j), Extract(63, 0, j)
		inR := And(Eq(jr, rs), Ule(end, ji), Ult(Sub(ji, end), n))
		st.assume(Forall([]*Term{j}, Eq(Select(nw, j), Ite(inR, Select(src, Concat(p.sRef(), Add(p.sOff(), Sub(ji, end)))), Select(old, j)))))
		st.mem["bs|data"] = nw
		st.written["bs|data"] = true
		st.storeLeaf("bs|end", []*Term{rs}, Add(end, n))
		return Val{RT, append([]*Term{n}, nilError().L...)}, true
	}
	if n.Op == OConst && n.Val == 1 {
		b := st.loadLeaf(key, []*Term{p.sRef(), p.sOff()}, BV(8))
		e.writeTok(st, s, mkTok(tkRaw, nil, ZExt(b, 64), nil))
	} else if n.Op == OConst && n.Val == 0 {
		// nothing
	} else {
		if n.Op != OConst && fr != nil && in != nil {
			// an empty write leaves no token: explore it as a separate path
			o := st.clone()
			o.assume(Eq(n, BVConst(0, 64)))
			o.trace = append(o.trace, "write0")
			if !o.dead {
				res := Val{RT, append([]*Term{BVConst(0, 64)}, nilError().L...)}
				if b := bindOf(in); b != nil {
					res.T = b.Type()
					o.top().regs[b] = res
				}
				e.work = append(e.work, o)
			}
			st.assume(Not(Eq(n, BVConst(0, 64))))
		}
		cid := e.blkContent(st, p)
		e.writeTok(st, s, mkTok(tkBlk, nil, n, cid))
	}
	return Val{RT, append([]*Term{n}, nilError().L...)}, true
}

func modelRead(e *Engine, st *State, fr *Frame, fn *ssa.Function, args []Val, in ssa.Instruction) (Val, bool) {
	RT := types.NewTuple(types.NewVar(0, nil, "n", types.Typ[types.Int]), types.NewVar(0, nil, "err", errorType()))
	buf := args[1]
	e.ioFail(st, fr, in, bindOf(in), func(o *State, err Val) Val {
		n := FreshVar("nread", Ref64)
		o.assume(Ule(n, buf.sLen()))
		e.havocRegion(o, types.Typ[types.Uint8], buf.sRef(), buf.sOff(), buf.sLen())
		return Val{RT, append([]*Term{n}, err.L...)}
	})
	// a successful Read is modelled as filling the buffer completely when it asks for one byte (the codecs' use);
	// larger buffers may be filled partially
	if buf.sLen().Op == OConst && buf.sLen().Val == 1 {
		e.readBytesInto(st, streamRef(args[0]), buf)
		return Val{RT, append([]*Term{BVConst(1, 64)}, nilError().L...)}, true
	}
	n := FreshVar("nread", Ref64)
	st.assume(Ule(n, buf.sLen()))
	e.havocRegion(st, types.Typ[types.Uint8], buf.sRef(), buf.sOff(), buf.sLen())
	_ = e.readTok(st, streamRef(args[0]))
	return Val{RT, append([]*Term{n}, nilError().L...)}, true
}

func streamIfaceModel(T types.Type, m *types.Func) modelFn {
	tn := typeName(T)
	switch {
	case m.Name() == "Write" && (tn == "io.Writer" || tn == "io.ReadWriter" || tn == "io.WriteCloser" || tn == "io.ReadWriteCloser" || strings.HasSuffix(tn, "net.Conn")):
		return modelWrite
	case m.Name() == "Read" && (tn == "io.Reader" || tn == "io.ReadWriter" || tn == "io.ReadCloser" || tn == "io.ReadWriteCloser" || strings.HasSuffix(tn, "net.Conn")):
		return modelRead
	}
	return nil
}

// ---------- native models of in-module functions, enabled by `govc:trusted ... //@ opt model NAME` ----------

func nativeModel(name string) modelFn {
	switch name {
	case "eid-marshal":
		// (*EndpointID).MarshalCbor(w): assumed inverse of eid-unmarshal; writes one abstract EID token holding the
		// endpoint's dynamic value; fails (writing nothing further) when the endpoint is invalid or the writer fails.
		return func(e *Engine, st *State, fr *Frame, fn *ssa.Function, args []Val, in ssa.Instruction) (Val, bool) {
			e.ioFail(st, fr, in, bindOf(in), func(o *State, err Val) Val { return err })
			if _, ok := st.ghost["$noioerr"]; ok {
				// live behaviours still allow an invalid endpoint to be refused
				o := st.clone()
				o.trace = append(o.trace, "eid-invalid")
				err := freshError(o)
				if b := bindOf(in); b != nil {
					err.T = b.Type()
					o.top().regs[b] = err
				}
				eidp := ptrInfo(args[0])
				ev0 := o.loadAt(eidp, deref(args[0].T)).field(0)
				o.assume(App("eidInvalid", BoolSort, ev0.iTag(), ev0.iPl()))
				e.work = append(e.work, o)
			}
			eidp := ptrInfo(args[0])
			ev := st.loadAt(eidp, deref(args[0].T)).field(0)
			st.assume(Not(Eq(ev.iTag(), BVConst(0, 32))))
			if _, ok := st.ghost["$noioerr"]; ok {
				st.assume(Not(App("eidInvalid", BoolSort, ev.iTag(), ev.iPl())))
			}
			t := mkTok(tkEID, nil, nil, ev.iPl())
			t.aux = ZExt(ev.iTag(), 64)
			e.writeTok(st, streamRef(args[1]), t)
			return nilError(), true
		}
	case "eid-unmarshal":
		return func(e *Engine, st *State, fr *Frame, fn *ssa.Function, args []Val, in ssa.Instruction) (Val, bool) {
			eidp := ptrInfo(args[0])
			eT := deref(args[0].T)
			e.ioFail(st, fr, in, bindOf(in), func(o *State, err Val) Val {
				o.havocAt(eidp, eT, "eiderr")
				e.havocStream(o, e.resolveAlias(o, streamRef(args[1])), false)
				return err
			})
			t := e.readTok(st, streamRef(args[1]))
			// reader-defined tokenisation: where an endpoint ID is decoded successfully, the input token is an endpoint ID
			st.assume(Eq(t.kind, BVConst(tkEID, 8)))
			st.assume(Eq(Extract(63, 32, t.aux), BVConst(0, 32)))
			tag := Extract(31, 0, t.aux)
			pl := t.cid
			// a successfully decoded endpoint is one of the registered schemes
			it := eT.Underlying().(*types.Struct).Field(0).Type()
			var alts []*Term
			for _, c := range e.closedImpls(it) {
				alts = append(alts, Eq(tag, typeTag(c)))
			}
			if len(alts) > 0 {
				st.assume(Or(alts...))
			} else {
				st.assume(Not(Eq(tag, BVConst(0, 32))))
			}
			if in != nil {
				e.checkAssigns(st, eidp, eT, in)
			}
			st.storeAt(eidp, Val{eT, []*Term{tag, pl}})
			return nilError(), true
		}
	case "ebm-get":
		return func(e *Engine, st *State, fr *Frame, fn *ssa.Function, args []Val, in ssa.Instruction) (Val, bool) {
			r := Var("ref!global!extensionBlockManager", Ref64)
			st.assume(Not(Eq(r, BVConst(0, 64))))
			st.assume(Ult(r, BVConst(freshRefBase, 64)))
			return Val{fn.Signature.Results().At(0).Type(), []*Term{r}}, true
		}
	case "ext-write":
		// (*ExtensionBlockManager).WriteBlock(b, w): assumed inverse of ext-read; one abstract EXT token (a CBOR byte
		// string holding the block-type-specific data)
		return func(e *Engine, st *State, fr *Frame, fn *ssa.Function, args []Val, in ssa.Instruction) (Val, bool) {
			e.ioFail(st, fr, in, bindOf(in), func(o *State, err Val) Val { return err })
			b := args[1]
			t := mkTok(tkExt, nil, nil, b.iPl())
			t.aux = ZExt(b.iTag(), 64)
			e.writeTok(st, streamRef(args[2]), t)
			return nilError(), true
		}
	case "ext-read":
		return func(e *Engine, st *State, fr *Frame, fn *ssa.Function, args []Val, in ssa.Instruction) (Val, bool) {
			RT := fn.Signature.Results()
			bT := RT.At(0).Type()
			e.ioFail(st, fr, in, bindOf(in), func(o *State, err Val) Val {
				b := freshVal(bT, "exterr")
				o.assumeRefsOld(b)
				e.havocStream(o, e.resolveAlias(o, streamRef(args[2])), false)
				return Val{RT, append(append([]*Term{}, b.L...), err.L...)}
			})
			code := args[1].t()
			t := e.readTok(st, streamRef(args[2]))
			st.assume(Eq(t.kind, BVConst(tkExt, 8)))
			st.assume(Eq(Extract(63, 32, t.aux), BVConst(0, 32)))
			tag := Extract(31, 0, t.aux)
			pl := t.cid
			b := Val{bT, []*Term{tag, pl}}
			var alts []*Term
			for _, c := range e.closedImpls(bT) {
				alts = append(alts, Eq(tag, typeTag(c)))
			}
			if len(alts) > 0 {
				st.assume(Or(alts...))
			}
			st.assume(Not(Eq(pl, BVConst(0, 64))))
			// the manager creates the block registered for the code (or a generic block remembering the code)
			if m := findIfaceMethod(bT, "BlockTypeCode"); m != nil {
				c := &evalCtx{e: e, st: st, env: map[string]Val{}, pkg: fn.Package().Pkg}
				tc := e.evalPureInvoke(c, b, m, nil)
				st.assume(Eq(tc.t(), code))
			}
			return Val{RT, append(append([]*Term{}, b.L...), nilError().L...)}, true
		}
	}
	return nil
}

func findIfaceMethod(T types.Type, name string) *types.Func {
	it, ok := T.Underlying().(*types.Interface)
	if !ok {
		return nil
	}
	for i := 0; i < it.NumMethods(); i++ {
		if it.Method(i).Name() == name {
			return it.Method(i)
		}
	}
	return nil
}

// ---------- encoding/binary.Write / Read on fixed-size values ----------

func orderIsLE(order Val) (bool, bool) {
	t := order.iTag()
	if t.Op != OConst {
		return false, false
	}
	T := typeOfTag[t.Val]
	if T == nil {
		return false, false
	}
	n := typeName(T)
	switch n {
	case "binary.bigEndian":
		return false, true
	case "binary.littleEndian":
		return true, true
	}
	return false, false
}

func fixTok(width int, le bool, v *Term) tokVal {
	m := uint64(width)
	if le && width > 1 {
		m |= 0x80
	}
	return mkTok(tkFix, BVConst(m, 8), ZExt(v, 64), nil)
}

// binWriteVal writes a fixed-size value field by field (as encoding/binary does).
func (e *Engine) binWriteVal(st *State, s *Term, v Val, le bool) {
	switch u := v.T.Underlying().(type) {
	case *types.Basic:
		if u.Info()&types.IsInteger != 0 {
			e.writeTok(st, s, fixTok(v.t().S.W/8, le, v.t()))
			return
		}
		if u.Info()&types.IsBoolean != 0 {
			e.writeTok(st, s, fixTok(1, le, Ite(v.t(), BVConst(1, 8), BVConst(0, 8))))
			return
		}
	case *types.Struct:
		for i := 0; i < u.NumFields(); i++ {
			e.binWriteVal(st, s, v.field(i), le)
		}
		return
	case *types.Array:
		for i := 0; i < int(u.Len()); i++ {
			e.binWriteVal(st, s, v.arrayElem(i), le)
		}
		return
	case *types.Slice:
		if b, ok := u.Elem().Underlying().(*types.Basic); ok && b.Kind() == types.Uint8 {
			if v.sLen().Op == OConst && v.sLen().Val == 0 {
				return
			}
			cid := e.blkContent(st, v)
			e.writeTok(st, s, mkTok(tkBlk, nil, v.sLen(), cid))
			return
		}
	case *types.Pointer:
		e.binWriteVal(st, s, st.loadAt(ptrInfo(v), u.Elem()), le)
		return
	}
	panic(unsupported("binary.Write of " + typeName(v.T)))
}

func (e *Engine) binReadInto(st *State, s *Term, pi *PtrInfo, T types.Type, le bool, in ssa.Instruction) {
	switch u := T.Underlying().(type) {
	case *types.Basic:
		if u.Info()&types.IsInteger != 0 {
			w := basicSort(u).W
			t := e.readTok(st, s)
			// reader-defined tokenisation: a fixed-width read sees a fixed-width token of that width
			st.assume(Eq(t.kind, BVConst(tkFix, 8)))
			st.assume(Eq(BAnd(t.m, BVConst(0x7f, 8)), BVConst(uint64(w/8), 8)))
			st.assume(Ule(t.n, BVConst(mask(w), 64)))
			same := Eq(BAnd(t.m, BVConst(0x80, 8)), BVConst(map[bool]uint64{true: 0x80, false: 0}[le], 8))
			raw := Extract(w-1, 0, t.n)
			val := raw
			if w > 8 {
				val = Ite(same, raw, bswap(raw))
			}
			if in != nil {
				e.checkAssigns(st, pi, T, in)
			}
			st.storeAt(pi, Val{T, []*Term{val}})
			return
		}
	case *types.Struct:
		for i := 0; i < u.NumFields(); i++ {
			f := u.Field(i)
			e.binReadInto(st, s, pi.field(f.Name(), f.Type()), f.Type(), le, in)
		}
		return
	}
	panic(unsupported("binary.Read into " + typeName(T)))
}

func bswap(t *Term) *Term {
	n := t.S.W / 8
	var r *Term
	for i := 0; i < n; i++ {
		b := Extract(i*8+7, i*8, t)
		if r == nil {
			r = b
		} else {
			r = Concat(r, b)
		}
	}
	return r
}

func binaryModels(name string) modelFn {
	switch name {
	case "encoding/binary.Write":
		return func(e *Engine, st *State, fr *Frame, fn *ssa.Function, args []Val, in ssa.Instruction) (Val, bool) {
			le, ok := orderIsLE(args[1])
			if !ok {
				return Val{}, false
			}
			data := args[2]
			if data.iTag().Op != OConst {
				return Val{}, false
			}
			T := typeOfTag[data.iTag().Val]
			e.ioFail(st, fr, in, bindOf(in), func(o *State, err Val) Val { return err })
			e.binWriteVal(st, streamRef(args[0]), e.unbox(st, data, T), le)
			return nilError(), true
		}
	case "encoding/binary.Read":
		return func(e *Engine, st *State, fr *Frame, fn *ssa.Function, args []Val, in ssa.Instruction) (Val, bool) {
			le, ok := orderIsLE(args[1])
			if !ok {
				return Val{}, false
			}
			data := args[2]
			if data.iTag().Op != OConst {
				return Val{}, false
			}
			T := typeOfTag[data.iTag().Val]
			pt, isPtr := T.Underlying().(*types.Pointer)
			if !isPtr {
				return Val{}, false
			}
			p := e.unbox(st, data, T)
			pi := ptrInfo(p)
			e.ioFail(st, fr, in, bindOf(in), func(o *State, err Val) Val {
				o.havocAt(pi, pt.Elem(), "binreaderr")
				e.havocStream(o, e.resolveAlias(o, streamRef(args[0])), false)
				return err
			})
			e.binReadInto(st, streamRef(args[0]), pi, pt.Elem(), le, in)
			return nilError(), true
		}
	}
	return nil
}

// bufLen: number of unread bytes of a buffer = bytes written - bytes read (ghost counters).
func bufLen(st *State, s *Term) *Term {
	wb := st.loadLeaf("tokpos|wb", []*Term{s}, Ref64)
	rb := st.loadLeaf("tokpos|rb", []*Term{s}, Ref64)
	if wb.Op == OSelect && wb.Args[0].Op == OVar {
		st.assume(Ule(wb, BVConst(maxLen, 64)))
		st.assume(Ule(rb, wb))
	}
	return Sub(wb, rb)
}

// ---------- byte-level streams (opt streams bytes): content bs|data[s, i], cursor bs|pos[s], length bs|end[s] ----------

func (e *Engine) byteMode() bool {
	return e.cur != nil && e.cur.c != nil && e.cur.c.Opts["streams"] == "bytes"
}

func (e *Engine) ioGlobalErr(st *State, name string) Val {
	p := e.pkgs["io"]
	if p == nil {
		panic(unsupported("package io not loaded"))
	}
	g, ok := p.Members[name].(*ssa.Global)
	if !ok {
		panic(unsupported("io." + name + " not found"))
	}
	pi := &PtrInfo{Ref: globalRef(g), Root: rootName(errorType()), Elem: errorType()}
	v := st.loadAt(pi, errorType())
	st.assume(Not(Eq(v.iTag(), BVConst(0, 32))))
	return v
}

func bsPos(st *State, s *Term) *Term {
	p := st.loadLeaf("bs|pos", []*Term{s}, Ref64)
	en := st.loadLeaf("bs|end", []*Term{s}, Ref64)
	if p.Op == OSelect && p.Args[0].Op == OVar {
		st.assume(Ule(p, en))
		st.assume(Ule(en, BVConst(maxLen, 64)))
	}
	return p
}
func bsEnd(st *State, s *Term) *Term { return st.loadLeaf("bs|end", []*Term{s}, Ref64) }

// byteReadFull models io.ReadFull on a byte-level stream.
func (e *Engine) byteReadFull(st *State, fr *Frame, fn *ssa.Function, args []Val, in ssa.Instruction) (Val, bool) {
	RT := fn.Signature.Results()
	s := e.resolveAlias(st, streamRef(args[0]))
	buf := args[1]
	pos, end := bsPos(st, s), bsEnd(st, s)
	avail := Sub(end, pos)
	n := buf.sLen()
	eof := e.ioGlobalErr(st, "EOF")
	ueof := e.ioGlobalErr(st, "ErrUnexpectedEOF")
	st.assume(Not(e.ifaceEq(st, eof, ueof)))
	mkRes := func(cnt *Term, err Val) Val { return Val{RT, append([]*Term{cnt}, err.L...)} }
	fork := func(cond *Term, tag string, f func(o *State) Val) {
		if cond.IsFalse() || fr == nil || in == nil {
			return
		}
		o := st.clone()
		o.assume(cond)
		o.trace = append(o.trace, tag)
		if o.dead {
			return
		}
		res := f(o)
		if b := bindOf(in); b != nil {
			res.T = b.Type()
			o.top().regs[b] = res
		}
		e.work = append(e.work, o)
	}
	// other I/O failure: arbitrary error distinct from the EOF values, cursor unknown
	if _, ok := st.ghost["$noioerr"]; !ok {
		fork(True, "ioerr", func(o *State) Val {
			err := freshError(o)
			o.assume(Not(e.ifaceEq(o, err, eof)))
			o.assume(Not(e.ifaceEq(o, err, ueof)))
			np := FreshVar("bpos", Ref64)
			o.assume(Ule(pos, np))
			o.assume(Ule(np, end))
			o.storeLeaf("bs|pos", []*Term{s}, np)
			e.havocRegion(o, types.Typ[types.Uint8], buf.sRef(), buf.sOff(), buf.sLen())
			return mkRes(FreshVar("nread", Ref64), err)
		})
	}
	// empty buffer: (0, nil)
	// nothing available: (0, EOF)
	fork(And(Eq(avail, BVConst(0, 64)), Not(Eq(n, BVConst(0, 64)))), "eof", func(o *State) Val { return mkRes(BVConst(0, 64), eof) })
	// short read: (avail, ErrUnexpectedEOF)
	fork(And(Not(Eq(avail, BVConst(0, 64))), Ult(avail, n)), "short", func(o *State) Val {
		e.byteCopy(o, s, pos, buf, avail)
		o.storeLeaf("bs|pos", []*Term{s}, end)
		return mkRes(avail, ueof)
	})
	st.assume(Ule(n, avail))
	e.byteCopy(st, s, pos, buf, n)
	st.storeLeaf("bs|pos", []*Term{s}, Add(pos, n))
	return mkRes(n, nilError()), true
}

// byteCopy: buf[0..n) := bs|data[s, pos..pos+n)
func (e *Engine) byteCopy(st *State, s, pos *Term, buf Val, n *Term) {
	key := arrRoot(types.Typ[types.Uint8]) + "|[]"
	src := st.cellArr("bs|data", 2, BV(8))
	old := st.cellArr(key, 2, BV(8))
	nw := FreshVar("Hb|"+key, old.S)
	j := Bound("j", BV(128))
	jr, ji := Extract(127, 64, j), Extract(63, 0, j)
	in := And(Eq(jr, buf.sRef()), Ule(buf.sOff(), ji), Ult(Sub(ji, buf.sOff()), n))
	st.assume(Forall([]*Term{j}, Eq(Select(nw, j), Ite(in, Select(src, Concat(s, Add(pos, Sub(ji, buf.sOff())))), Select(old, j)))))
	st.mem[key] = nw
	st.written[key] = true
}

// retokenize forgets the tokens of stream s at and above position from.
func (e *Engine) retokenize(st *State, s *Term, from *Term) {
	for _, c := range []struct {
		key string
		s   *Sort
	}{{"tok|kind", BV(8)}, {"tok|m", BV(8)}, {"tok|n", Ref64}, {"tok|cid", Ref64}, {"tok|aux", Ref64}} {
		old := st.cellArr(c.key, 2, c.s)
		nw := FreshVar("Hq|"+c.key, old.S)
		j := Bound("j", BV(128))
		jr, ji := Extract(127, 64, j), Extract(63, 0, j)
		inR := And(Eq(jr, s), Ule(from, ji))
		st.assume(Forall([]*Term{j}, Or(inR, Eq(Select(nw, j), Select(old, j)))))
		st.mem[c.key] = nw
	}
}
