package main

// SMT term layer: sorts, hash-consed terms with light simplification, SMT-LIB printer.

import (
	"fmt"
	"math/big"
	"sort"
	"strings"
)

type SortKind int

const (
	SBool SortKind = iota
	SBV
	SReal
	SUn // uninterpreted
	SArr
)

type Sort struct {
	Kind  SortKind
	W     int    // bit width for SBV
	Name  string // for SUn
	Idx   *Sort  // for SArr
	Elem  *Sort  // for SArr
	cache string
}

var sortTab = map[string]*Sort{}

func internSort(s *Sort) *Sort {
	k := s.key()
	if o, ok := sortTab[k]; ok {
		return o
	}
	s.cache = k
	sortTab[k] = s
	return s
}
func (s *Sort) key() string {
	if s.cache != "" {
		return s.cache
	}
	switch s.Kind {
	case SBool:
		return "Bool"
	case SBV:
		return fmt.Sprintf("(_ BitVec %d)", s.W)
	case SReal:
		return "Real"
	case SUn:
		return s.Name
	case SArr:
		return "(Array " + s.Idx.key() + " " + s.Elem.key() + ")"
	}
	panic("sort")
}
func (s *Sort) String() string { return s.key() }

var BoolSort = internSort(&Sort{Kind: SBool})
var RealSort = internSort(&Sort{Kind: SReal})
var StrSort = internSort(&Sort{Kind: SUn, Name: "Str"})

func BV(w int) *Sort           { return internSort(&Sort{Kind: SBV, W: w}) }
func ArrSort(i, e *Sort) *Sort { return internSort(&Sort{Kind: SArr, Idx: i, Elem: e}) }
func UnSort(n string) *Sort    { return internSort(&Sort{Kind: SUn, Name: n}) }

type Op int

const (
	OConst Op = iota // BV const (Val), Bool const (Val 0/1), Real const (Rat)
	OVar             // free symbol Name (declared const or, with args, UF application)
	OBound           // bound variable
	OApp             // uninterpreted function application: Name(args)
	ONot
	OAnd
	OOr
	OImp
	OEq
	OIte
	OAdd
	OSub
	OMul
	OUDiv
	OURem
	OSDiv
	OSRem
	OBAnd
	OBOr
	OBXor
	OBNot
	ONeg
	OShl
	OLshr
	OAshr
	OConcat
	OExtract // I1=hi I2=lo
	OZext    // I1 = extra bits
	OSext
	OUlt
	OUle
	OSlt
	OSle
	OSelect
	OStore
	OForall // Bound vars in Bnd, body args[0]
	OExists
	ORAdd
	ORSub
	ORMul
	ORDiv
	ORLt
	ORLe
	ORNeg
	OConstArr // constant array, args[0] = default
)

type Term struct {
	Op       Op
	Args     []*Term
	S        *Sort
	Val      uint64   // BV const value (w<=64) / bool
	Rat      *big.Rat // real const
	Name     string
	I1, I2   int
	Bnd      []*Term
	id       int
	hasBound bool
}

var termTab = map[string]*Term{}
var termSeq int

// UF / var declarations seen
type decl struct {
	name string
	args []*Sort
	ret  *Sort
}

var declTab = map[string]*decl{}

func resetTerms() {
	termTab = map[string]*Term{}
	declTab = map[string]*decl{}
	termSeq = 0
}

func mk(t *Term) *Term {
	var sb strings.Builder
	fmt.Fprintf(&sb, "%d|%s|%d|%d|%d|%s|", t.Op, t.S.key(), t.Val, t.I1, t.I2, t.Name)
	if t.Rat != nil {
		sb.WriteString(t.Rat.String())
	}
	for _, a := range t.Args {
		fmt.Fprintf(&sb, "#%d", a.id)
	}
	for _, b := range t.Bnd {
		fmt.Fprintf(&sb, "b%d", b.id)
	}
	k := sb.String()
	if o, ok := termTab[k]; ok {
		return o
	}
	termSeq++
	t.id = termSeq
	if t.Op == OBound {
		t.hasBound = true
	}
	for _, a := range t.Args {
		if a.hasBound {
			t.hasBound = true
		}
	}
	termTab[k] = t
	return t
}

func mask(w int) uint64 {
	if w >= 64 {
		return ^uint64(0)
	}
	return (uint64(1) << uint(w)) - 1
}

func BVConst(v uint64, w int) *Term {
	return mk(&Term{Op: OConst, S: BV(w), Val: v & mask(w)})
}
func BoolConst(b bool) *Term {
	v := uint64(0)
	if b {
		v = 1
	}
	return mk(&Term{Op: OConst, S: BoolSort, Val: v})
}

var True = BoolConst(true)
var False = BoolConst(false)

func initTermConsts() { True = BoolConst(true); False = BoolConst(false) }

func RealConst(r *big.Rat) *Term {
	return mk(&Term{Op: OConst, S: RealSort, Rat: new(big.Rat).Set(r)})
}
func Var(name string, s *Sort) *Term {
	if d, ok := declTab[name]; ok {
		if d.ret != s || len(d.args) != 0 {
			panic("redeclared " + name + " with different sort " + d.ret.key() + " vs " + s.key())
		}
	} else {
		declTab[name] = &decl{name: name, ret: s}
	}
	return mk(&Term{Op: OVar, S: s, Name: name})
}

var freshCtr = map[string]int{}

func FreshVar(prefix string, s *Sort) *Term {
	for {
		freshCtr[prefix]++
		n := fmt.Sprintf("%s!%d", prefix, freshCtr[prefix])
		if _, ok := declTab[n]; !ok {
			return Var(n, s)
		}
	}
}
func Bound(name string, s *Sort) *Term {
	freshCtr["bv"]++
	return mk(&Term{Op: OBound, S: s, Name: fmt.Sprintf("%s?%d", name, freshCtr["bv"])})
}

// BoundCanon returns the canonical bound variable for (name, nesting depth, sort): evaluating the same quantified
// clause twice yields the identical term.
func BoundCanon(name string, depth int, s *Sort) *Term {
	return mk(&Term{Op: OBound, S: s, Name: fmt.Sprintf("%s?d%d", name, depth)})
}
func App(name string, ret *Sort, args ...*Term) *Term {
	as := make([]*Sort, len(args))
	for i, a := range args {
		as[i] = a.S
	}
	if d, ok := declTab[name]; ok {
		if d.ret != ret || len(d.args) != len(as) {
			panic("UF redeclared " + name)
		}
		for i := range as {
			if d.args[i] != as[i] {
				panic("UF redeclared " + name + " arg sort")
			}
		}
	} else {
		declTab[name] = &decl{name: name, args: as, ret: ret}
	}
	if len(args) == 0 {
		return mk(&Term{Op: OVar, S: ret, Name: name})
	}
	return mk(&Term{Op: OApp, S: ret, Name: name, Args: args})
}

func (t *Term) IsConst() bool { return t.Op == OConst }
func (t *Term) IsTrue() bool  { return t.Op == OConst && t.S == BoolSort && t.Val == 1 }
func (t *Term) IsFalse() bool { return t.Op == OConst && t.S == BoolSort && t.Val == 0 }

func Not(a *Term) *Term {
	if a.IsTrue() {
		return False
	}
	if a.IsFalse() {
		return True
	}
	if a.Op == ONot {
		return a.Args[0]
	}
	return mk(&Term{Op: ONot, S: BoolSort, Args: []*Term{a}})
}
func And(as ...*Term) *Term {
	var out []*Term
	seen := map[int]bool{}
	for _, a := range as {
		if a.IsFalse() {
			return False
		}
		if a.IsTrue() {
			continue
		}
		if a.Op == OAnd {
			for _, b := range a.Args {
				if !seen[b.id] {
					seen[b.id] = true
					out = append(out, b)
				}
			}
			continue
		}
		if !seen[a.id] {
			seen[a.id] = true
			out = append(out, a)
		}
	}
	for _, a := range out {
		if a.Op == ONot && seen[a.Args[0].id] {
			return False
		}
	}
	if len(out) == 0 {
		return True
	}
	if len(out) == 1 {
		return out[0]
	}
	return mk(&Term{Op: OAnd, S: BoolSort, Args: out})
}
func Or(as ...*Term) *Term {
	var out []*Term
	seen := map[int]bool{}
	for _, a := range as {
		if a.IsTrue() {
			return True
		}
		if a.IsFalse() {
			continue
		}
		if a.Op == OOr {
			for _, b := range a.Args {
				if !seen[b.id] {
					seen[b.id] = true
					out = append(out, b)
				}
			}
			continue
		}
		if !seen[a.id] {
			seen[a.id] = true
			out = append(out, a)
		}
	}
	for _, a := range out {
		if a.Op == ONot && seen[a.Args[0].id] {
			return True
		}
	}
	if len(out) == 0 {
		return False
	}
	if len(out) == 1 {
		return out[0]
	}
	return mk(&Term{Op: OOr, S: BoolSort, Args: out})
}
func Implies(a, b *Term) *Term {
	if a.IsTrue() {
		return b
	}
	if a.IsFalse() || b.IsTrue() {
		return True
	}
	if b.IsFalse() {
		return Not(a)
	}
	return mk(&Term{Op: OImp, S: BoolSort, Args: []*Term{a, b}})
}
func Iff(a, b *Term) *Term { return Eq(a, b) }

func Eq(a, b *Term) *Term {
	if a.S != b.S {
		panic(fmt.Sprintf("Eq sort mismatch %s vs %s (%s = %s)", a.S, b.S, a, b))
	}
	if a == b {
		return True
	}
	if a.Op == OConst && b.Op == OConst {
		if a.S.Kind == SReal {
			return BoolConst(a.Rat.Cmp(b.Rat) == 0)
		}
		return BoolConst(a.Val == b.Val)
	}
	if a.S == BoolSort {
		if a.IsTrue() {
			return b
		}
		if b.IsTrue() {
			return a
		}
		if a.IsFalse() {
			return Not(b)
		}
		if b.IsFalse() {
			return Not(a)
		}
	}
	// distinct literal string constants
	if a.S == StrSort && a.Op == OVar && b.Op == OVar && strings.HasPrefix(a.Name, "strlit!") && strings.HasPrefix(b.Name, "strlit!") {
		return False
	}
	// ite(c,k1,k2) == k  with constants
	if b.Op == OConst && a.Op == OIte && a.Args[1].Op == OConst && a.Args[2].Op == OConst {
		return Or(And(a.Args[0], Eq(a.Args[1], b)), And(Not(a.Args[0]), Eq(a.Args[2], b)))
	}
	if a.Op == OConst && b.Op == OIte && b.Args[1].Op == OConst && b.Args[2].Op == OConst {
		return Eq(b, a)
	}
	// zext(x) == const
	if b.Op == OConst && a.Op == OZext {
		inner := a.Args[0]
		if b.Val&^mask(inner.S.W) != 0 {
			return False
		}
		return Eq(inner, BVConst(b.Val, inner.S.W))
	}
	if a.Op == OConst && b.Op == OZext {
		return Eq(b, a)
	}
	if a.id > b.id {
		a, b = b, a
	}
	return mk(&Term{Op: OEq, S: BoolSort, Args: []*Term{a, b}})
}
func Ite(c, a, b *Term) *Term {
	if a.S != b.S {
		panic(fmt.Sprintf("Ite sort mismatch %s vs %s", a.S, b.S))
	}
	if c.IsTrue() {
		return a
	}
	if c.IsFalse() {
		return b
	}
	if a == b {
		return a
	}
	if a.S == BoolSort {
		if a.IsTrue() && b.IsFalse() {
			return c
		}
		if a.IsFalse() && b.IsTrue() {
			return Not(c)
		}
		if a.IsTrue() {
			return Or(c, b)
		}
		if b.IsFalse() {
			return And(c, a)
		}
		if a.IsFalse() {
			return And(Not(c), b)
		}
		if b.IsTrue() {
			return Or(Not(c), a)
		}
	}
	return mk(&Term{Op: OIte, S: a.S, Args: []*Term{c, a, b}})
}

func sx(v uint64, w int) int64 {
	if w >= 64 {
		return int64(v)
	}
	if v&(1<<uint(w-1)) != 0 {
		return int64(v | ^mask(w))
	}
	return int64(v)
}

func bin(op Op, a, b *Term) *Term {
	if a.S != b.S {
		panic(fmt.Sprintf("binop %d sort mismatch %s vs %s: %s , %s", op, a.S, b.S, a, b))
	}
	w := a.S.W
	if a.Op == OConst && b.Op == OConst {
		x, y := a.Val, b.Val
		switch op {
		case OAdd:
			return BVConst(x+y, w)
		case OSub:
			return BVConst(x-y, w)
		case OMul:
			return BVConst(x*y, w)
		case OUDiv:
			if y == 0 {
				return BVConst(mask(w), w)
			}
			return BVConst(x/y, w)
		case OURem:
			if y == 0 {
				return BVConst(x, w)
			}
			return BVConst(x%y, w)
		case OSDiv:
			if y != 0 && !(sx(x, w) == -1<<63 && sx(y, w) == -1) {
				return BVConst(uint64(sx(x, w)/sx(y, w)), w)
			}
		case OSRem:
			if y != 0 && !(sx(x, w) == -1<<63 && sx(y, w) == -1) {
				return BVConst(uint64(sx(x, w)%sx(y, w)), w)
			}
		case OBAnd:
			return BVConst(x&y, w)
		case OBOr:
			return BVConst(x|y, w)
		case OBXor:
			return BVConst(x^y, w)
		case OShl:
			if y >= uint64(w) {
				return BVConst(0, w)
			}
			return BVConst(x<<y, w)
		case OLshr:
			if y >= uint64(w) {
				return BVConst(0, w)
			}
			return BVConst(x>>y, w)
		case OAshr:
			if y >= uint64(w) {
				y = uint64(w - 1)
			}
			return BVConst(uint64(sx(x, w)>>y), w)
		}
	}
	// identities
	switch op {
	case OAdd:
		if a.Op == OConst && a.Val == 0 {
			return b
		}
		if b.Op == OConst && b.Val == 0 {
			return a
		}
		// (x + c1) + c2
		if b.Op == OConst && a.Op == OAdd && a.Args[1].Op == OConst {
			return bin(OAdd, a.Args[0], BVConst(a.Args[1].Val+b.Val, w))
		}
		if a.Op == OConst { // canonical: const on the right
			return bin(OAdd, b, a)
		}
	case OSub:
		if b.Op == OConst && b.Val == 0 {
			return a
		}
		if a == b {
			return BVConst(0, w)
		}
		if b.Op == OConst {
			return bin(OAdd, a, BVConst(-b.Val, w))
		}
		// (x + c) - x
		if a.Op == OAdd && a.Args[0] == b {
			return a.Args[1]
		}
	case OMul:
		if a.Op == OConst && a.Val == 1 {
			return b
		}
		if b.Op == OConst && b.Val == 1 {
			return a
		}
		if (a.Op == OConst && a.Val == 0) || (b.Op == OConst && b.Val == 0) {
			return BVConst(0, w)
		}
	case OBAnd:
		if a == b {
			return a
		}
		if (a.Op == OConst && a.Val == 0) || (b.Op == OConst && b.Val == 0) {
			return BVConst(0, w)
		}
		if a.Op == OConst && a.Val == mask(w) {
			return b
		}
		if b.Op == OConst && b.Val == mask(w) {
			return a
		}
	case OBOr:
		if a == b {
			return a
		}
		if a.Op == OConst && a.Val == 0 {
			return b
		}
		if b.Op == OConst && b.Val == 0 {
			return a
		}
	case OBXor:
		if a == b {
			return BVConst(0, w)
		}
		if a.Op == OConst && a.Val == 0 {
			return b
		}
		if b.Op == OConst && b.Val == 0 {
			return a
		}
	case OShl, OLshr, OAshr:
		if b.Op == OConst && b.Val == 0 {
			return a
		}
	}
	return mk(&Term{Op: op, S: a.S, Args: []*Term{a, b}})
}

func Add(a, b *Term) *Term  { return bin(OAdd, a, b) }
func Sub(a, b *Term) *Term  { return bin(OSub, a, b) }
func Mul(a, b *Term) *Term  { return bin(OMul, a, b) }
func UDiv(a, b *Term) *Term { return bin(OUDiv, a, b) }
func URem(a, b *Term) *Term { return bin(OURem, a, b) }
func SDiv(a, b *Term) *Term { return bin(OSDiv, a, b) }
func SRem(a, b *Term) *Term { return bin(OSRem, a, b) }
func BAnd(a, b *Term) *Term { return bin(OBAnd, a, b) }
func BOr(a, b *Term) *Term  { return bin(OBOr, a, b) }
func BXor(a, b *Term) *Term { return bin(OBXor, a, b) }
func Shl(a, b *Term) *Term  { return bin(OShl, a, b) }
func Lshr(a, b *Term) *Term { return bin(OLshr, a, b) }
func Ashr(a, b *Term) *Term { return bin(OAshr, a, b) }
func BNot(a *Term) *Term {
	if a.Op == OConst {
		return BVConst(^a.Val, a.S.W)
	}
	return mk(&Term{Op: OBNot, S: a.S, Args: []*Term{a}})
}
func Neg(a *Term) *Term {
	if a.Op == OConst {
		return BVConst(-a.Val, a.S.W)
	}
	return mk(&Term{Op: ONeg, S: a.S, Args: []*Term{a}})
}

func cmp(op Op, a, b *Term) *Term {
	if a.S != b.S {
		panic(fmt.Sprintf("cmp sort mismatch %s vs %s: %s , %s", a.S, b.S, a, b))
	}
	w := a.S.W
	if a.Op == OConst && b.Op == OConst {
		switch op {
		case OUlt:
			return BoolConst(a.Val < b.Val)
		case OUle:
			return BoolConst(a.Val <= b.Val)
		case OSlt:
			return BoolConst(sx(a.Val, w) < sx(b.Val, w))
		case OSle:
			return BoolConst(sx(a.Val, w) <= sx(b.Val, w))
		}
	}
	if a == b {
		return BoolConst(op == OUle || op == OSle)
	}
	switch op {
	case OUlt:
		if b.Op == OConst && b.Val == 0 {
			return False
		}
	case OUle:
		if a.Op == OConst && a.Val == 0 {
			return True
		}
		if b.Op == OConst && b.Val == mask(w) {
			return True
		}
	}
	// zext(x) cmp const
	if (op == OUlt || op == OUle) && a.Op == OZext && b.Op == OConst {
		iw := a.Args[0].S.W
		if b.Val > mask(iw) {
			return True
		}
		return cmp(op, a.Args[0], BVConst(b.Val, iw))
	}
	if (op == OUlt || op == OUle) && b.Op == OZext && a.Op == OConst {
		iw := b.Args[0].S.W
		if a.Val > mask(iw) {
			return False
		}
		return cmp(op, BVConst(a.Val, iw), b.Args[0])
	}
	return mk(&Term{Op: op, S: BoolSort, Args: []*Term{a, b}})
}
func Ult(a, b *Term) *Term { return cmp(OUlt, a, b) }
func Ule(a, b *Term) *Term { return cmp(OUle, a, b) }
func Slt(a, b *Term) *Term { return cmp(OSlt, a, b) }
func Sle(a, b *Term) *Term { return cmp(OSle, a, b) }

func Extract(hi, lo int, a *Term) *Term {
	if lo == 0 && hi == a.S.W-1 {
		return a
	}
	if a.Op == OConst {
		return BVConst(a.Val>>uint(lo), hi-lo+1)
	}
	if a.Op == OZext && lo == 0 {
		iw := a.Args[0].S.W
		if hi+1 == iw {
			return a.Args[0]
		}
		if hi+1 < iw {
			return Extract(hi, 0, a.Args[0])
		}
		return ZExt(a.Args[0], hi+1)
	}
	if a.Op == OSext && lo == 0 {
		iw := a.Args[0].S.W
		if hi+1 == iw {
			return a.Args[0]
		}
		if hi+1 < iw {
			return Extract(hi, 0, a.Args[0])
		}
	}
	return mk(&Term{Op: OExtract, S: BV(hi - lo + 1), Args: []*Term{a}, I1: hi, I2: lo})
}

// ZExt extends a to width w (w >= a.S.W)
func ZExt(a *Term, w int) *Term {
	if w == a.S.W {
		return a
	}
	if w < a.S.W {
		return Extract(w-1, 0, a)
	}
	if a.Op == OConst {
		return BVConst(a.Val, w)
	}
	if a.Op == OZext {
		return ZExt(a.Args[0], w)
	}
	return mk(&Term{Op: OZext, S: BV(w), Args: []*Term{a}, I1: w - a.S.W})
}
func SExt(a *Term, w int) *Term {
	if w == a.S.W {
		return a
	}
	if w < a.S.W {
		return Extract(w-1, 0, a)
	}
	if a.Op == OConst {
		return BVConst(uint64(sx(a.Val, a.S.W)), w)
	}
	return mk(&Term{Op: OSext, S: BV(w), Args: []*Term{a}, I1: w - a.S.W})
}

var ratZero = new(big.Rat)

func Concat(a, b *Term) *Term {
	if a.Op == OConst && b.Op == OConst && a.S.W+b.S.W <= 64 {
		return BVConst(a.Val<<uint(b.S.W)|b.Val, a.S.W+b.S.W)
	}
	return mk(&Term{Op: OConcat, S: BV(a.S.W + b.S.W), Args: []*Term{a, b}})
}

// definitelyDistinct: syntactic check that two same-sort terms can never be equal.
func definitelyDistinct(a, b *Term) bool {
	if a == b {
		return false
	}
	if a.Op == OConst && b.Op == OConst {
		return a.Val != b.Val
	}
	// x+c1 vs x+c2
	if a.S.Kind == SBV {
		ba, ca := splitAdd(a)
		bb, cb := splitAdd(b)
		if ba == bb && ca != cb {
			return true
		}
		// fresh allocation constants vs old-heap reference variables
		if isFreshRef(a) && isOldRefVar(b) || isFreshRef(b) && isOldRefVar(a) {
			return true
		}
		if a.Op == OConcat && b.Op == OConcat && a.Args[0].S == b.Args[0].S {
			return definitelyDistinct(a.Args[0], b.Args[0]) || definitelyDistinct(a.Args[1], b.Args[1])
		}
	}
	return false
}
func splitAdd(t *Term) (*Term, uint64) {
	if t.Op == OAdd && t.Args[1].Op == OConst {
		return t.Args[0], t.Args[1].Val
	}
	if t.Op == OConst {
		return nil, t.Val
	}
	return t, 0
}

const freshRefBase = uint64(1) << 48

func isFreshRef(t *Term) bool { return t.Op == OConst && t.S.W == 64 && t.Val >= freshRefBase }
func isOldRefVar(t *Term) bool {
	return t.Op == OVar && strings.HasPrefix(t.Name, "ref!")
}

func Select(arr *Term, idx *Term) *Term {
	if arr.S.Kind != SArr {
		panic("select on non-array " + arr.S.key())
	}
	if arr.S.Idx != idx.S {
		panic(fmt.Sprintf("select idx sort %s vs %s", arr.S.Idx, idx.S))
	}
	for arr.Op == OStore {
		if arr.Args[1] == idx {
			return arr.Args[2]
		}
		if definitelyDistinct(arr.Args[1], idx) {
			arr = arr.Args[0]
			continue
		}
		break
	}
	if arr.Op == OConstArr {
		return arr.Args[0]
	}
	if arr.Op == OVar && strings.HasPrefix(arr.Name, "H0|") && isFreshRef(leadIdx(idx)) {
		// initial heap: memory at references allocated later reads as the zero value
		if z := zeroOfSort(arr.S.Elem); z != nil {
			return z
		}
	}
	if arr.Op == OIte {
		// push select through ite of arrays only when cheap
		return Ite(arr.Args[0], Select(arr.Args[1], idx), Select(arr.Args[2], idx))
	}
	return mk(&Term{Op: OSelect, S: arr.S.Elem, Args: []*Term{arr, idx}})
}
func leadIdx(t *Term) *Term {
	for t.Op == OConcat {
		t = t.Args[0]
	}
	return t
}

func zeroOfSort(s *Sort) *Term {
	switch s.Kind {
	case SBool:
		return False
	case SBV:
		return BVConst(0, s.W)
	case SReal:
		return RealConst(ratZero)
	case SUn:
		if s == StrSort {
			return strLit("")
		}
	}
	return nil
}

func Store(arr, idx, val *Term) *Term {
	if arr.S.Idx != idx.S || arr.S.Elem != val.S {
		panic(fmt.Sprintf("store sort mismatch arr=%s idx=%s val=%s", arr.S, idx.S, val.S))
	}
	if arr.Op == OStore && arr.Args[1] == idx {
		arr = arr.Args[0]
	}
	return mk(&Term{Op: OStore, S: arr.S, Args: []*Term{arr, idx, val}})
}
func ConstArr(s *Sort, def *Term) *Term {
	return mk(&Term{Op: OConstArr, S: s, Args: []*Term{def}})
}

func Forall(bnd []*Term, body *Term) *Term {
	if body.IsTrue() || body.IsFalse() {
		return body
	}
	if len(bnd) == 0 {
		return body
	}
	t := mk(&Term{Op: OForall, S: BoolSort, Args: []*Term{body}, Bnd: bnd})
	t.hasBound = hasFreeBound(t)
	return t
}
func Exists(bnd []*Term, body *Term) *Term {
	if body.IsTrue() || body.IsFalse() {
		return body
	}
	if len(bnd) == 0 {
		return body
	}
	t := mk(&Term{Op: OExists, S: BoolSort, Args: []*Term{body}, Bnd: bnd})
	t.hasBound = hasFreeBound(t)
	return t
}
func hasFreeBound(t *Term) bool {
	fb := map[*Term]bool{}
	collectFreeBound(t, map[*Term]bool{}, fb, map[*Term]bool{})
	return len(fb) > 0
}
func collectFreeBound(t *Term, bound map[*Term]bool, out map[*Term]bool, seen map[*Term]bool) {
	if !t.hasBound && t.Op != OForall && t.Op != OExists {
		return
	}
	if t.Op == OBound {
		if !bound[t] {
			out[t] = true
		}
		return
	}
	if t.Op == OForall || t.Op == OExists {
		nb := map[*Term]bool{}
		for k := range bound {
			nb[k] = true
		}
		for _, b := range t.Bnd {
			nb[b] = true
		}
		collectFreeBound(t.Args[0], nb, out, map[*Term]bool{})
		return
	}
	for _, a := range t.Args {
		collectFreeBound(a, bound, out, seen)
	}
}

// Real arithmetic
func rbin(op Op, a, b *Term) *Term {
	if a.Op == OConst && b.Op == OConst {
		r := new(big.Rat)
		switch op {
		case ORAdd:
			return RealConst(r.Add(a.Rat, b.Rat))
		case ORSub:
			return RealConst(r.Sub(a.Rat, b.Rat))
		case ORMul:
			return RealConst(r.Mul(a.Rat, b.Rat))
		case ORDiv:
			if b.Rat.Sign() != 0 {
				return RealConst(r.Quo(a.Rat, b.Rat))
			}
		case ORLt:
			return BoolConst(a.Rat.Cmp(b.Rat) < 0)
		case ORLe:
			return BoolConst(a.Rat.Cmp(b.Rat) <= 0)
		}
	}
	s := RealSort
	if op == ORLt || op == ORLe {
		s = BoolSort
	}
	return mk(&Term{Op: op, S: s, Args: []*Term{a, b}})
}
func RNeg(a *Term) *Term {
	if a.Op == OConst {
		return RealConst(new(big.Rat).Neg(a.Rat))
	}
	return mk(&Term{Op: ORNeg, S: RealSort, Args: []*Term{a}})
}

// substitute replaces terms per map (used for quantifier instantiation and old->new rebinding)
func Subst(t *Term, m map[*Term]*Term) *Term {
	cache := map[*Term]*Term{}
	var rec func(t *Term) *Term
	rec = func(t *Term) *Term {
		if r, ok := m[t]; ok {
			return r
		}
		if len(t.Args) == 0 {
			return t
		}
		if r, ok := cache[t]; ok {
			return r
		}
		na := make([]*Term, len(t.Args))
		ch := false
		for i, a := range t.Args {
			na[i] = rec(a)
			if na[i] != a {
				ch = true
			}
		}
		var r *Term
		if !ch {
			r = t
		} else {
			r = rebuild(t, na)
		}
		cache[t] = r
		return r
	}
	return rec(t)
}

func rebuild(t *Term, a []*Term) *Term {
	switch t.Op {
	case OApp:
		return App(t.Name, t.S, a...)
	case ONot:
		return Not(a[0])
	case OAnd:
		return And(a...)
	case OOr:
		return Or(a...)
	case OImp:
		return Implies(a[0], a[1])
	case OEq:
		return Eq(a[0], a[1])
	case OIte:
		return Ite(a[0], a[1], a[2])
	case OAdd, OSub, OMul, OUDiv, OURem, OSDiv, OSRem, OBAnd, OBOr, OBXor, OShl, OLshr, OAshr:
		return bin(t.Op, a[0], a[1])
	case OBNot:
		return BNot(a[0])
	case ONeg:
		return Neg(a[0])
	case OConcat:
		return Concat(a[0], a[1])
	case OExtract:
		return Extract(t.I1, t.I2, a[0])
	case OZext:
		return ZExt(a[0], t.S.W)
	case OSext:
		return SExt(a[0], t.S.W)
	case OUlt, OUle, OSlt, OSle:
		return cmp(t.Op, a[0], a[1])
	case OSelect:
		return Select(a[0], a[1])
	case OStore:
		return Store(a[0], a[1], a[2])
	case OForall, OExists:
		var r *Term
		if t.Op == OForall {
			r = Forall(t.Bnd, a[0])
		} else {
			r = Exists(t.Bnd, a[0])
		}
		// keep the typed-variable information of contract quantifiers across substitution (instantiation of an
		// outer quantifier must not make the inner one anonymous)
		if qi := quantInfo[t]; qi != nil && (r.Op == OForall || r.Op == OExists) && quantInfo[r] == nil {
			quantInfo[r] = &qInfo{Vars: qi.Vars, Body: r.Args[0]}
		}
		return r
	case ORAdd, ORSub, ORMul, ORDiv, ORLt, ORLe:
		return rbin(t.Op, a[0], a[1])
	case ORNeg:
		return RNeg(a[0])
	case OConstArr:
		return ConstArr(t.S, a[0])
	}
	panic(fmt.Sprintf("rebuild op %d", t.Op))
}

// ---------- printing ----------

var opNames = map[Op]string{
	ONot: "not", OAnd: "and", OOr: "or", OImp: "=>", OEq: "=", OIte: "ite",
	OAdd: "bvadd", OSub: "bvsub", OMul: "bvmul", OUDiv: "bvudiv", OURem: "bvurem", OSDiv: "bvsdiv", OSRem: "bvsrem",
	OBAnd: "bvand", OBOr: "bvor", OBXor: "bvxor", OBNot: "bvnot", ONeg: "bvneg", OShl: "bvshl", OLshr: "bvlshr", OAshr: "bvashr",
	OConcat: "concat", OUlt: "bvult", OUle: "bvule", OSlt: "bvslt", OSle: "bvsle", OSelect: "select", OStore: "store",
	ORAdd: "+", ORSub: "-", ORMul: "*", ORDiv: "/", ORLt: "<", ORLe: "<=", ORNeg: "-",
}

func smtName(n string) string {
	ok := true
	for _, c := range n {
		if !(c >= 'a' && c <= 'z' || c >= 'A' && c <= 'Z' || c >= '0' && c <= '9' || c == '_' || c == '!' || c == '.' || c == '$' || c == '?' || c == '@') {
			ok = false
			break
		}
	}
	if ok && n != "" && !(n[0] >= '0' && n[0] <= '9') {
		return n
	}
	return "|" + strings.ReplaceAll(strings.ReplaceAll(n, "|", "_"), "\\", "_") + "|"
}

type printer struct {
	defs  []string
	named map[*Term]string
	refs  map[*Term]int
}

func (p *printer) count(t *Term) {
	p.refs[t]++
	if p.refs[t] > 1 {
		return
	}
	for _, a := range t.Args {
		p.count(a)
	}
}

func (p *printer) str(t *Term) string {
	if n, ok := p.named[t]; ok {
		return n
	}
	s := p.raw(t)
	if !t.hasBound && len(t.Args) > 0 && p.refs[t] > 1 && t.Op != OForall && t.Op != OExists {
		n := fmt.Sprintf("t!%d", t.id)
		p.defs = append(p.defs, fmt.Sprintf("(define-fun %s () %s %s)", n, t.S.key(), s))
		p.named[t] = n
		return n
	}
	return s
}

func (p *printer) raw(t *Term) string {
	switch t.Op {
	case OConst:
		switch t.S.Kind {
		case SBool:
			if t.Val == 1 {
				return "true"
			}
			return "false"
		case SBV:
			if t.S.W%4 == 0 {
				return fmt.Sprintf("#x%0*x", t.S.W/4, t.Val)
			}
			return fmt.Sprintf("#b%0*b", t.S.W, t.Val)
		case SReal:
			r := t.Rat
			neg := r.Sign() < 0
			ar := new(big.Rat).Abs(r)
			s := fmt.Sprintf("(/ %s.0 %s.0)", ar.Num().String(), ar.Denom().String())
			if ar.IsInt() {
				s = ar.Num().String() + ".0"
			}
			if neg {
				return "(- " + s + ")"
			}
			return s
		}
	case OVar, OBound:
		return smtName(t.Name)
	case OApp:
		var sb strings.Builder
		sb.WriteString("(" + smtName(t.Name))
		for _, a := range t.Args {
			sb.WriteString(" " + p.str(a))
		}
		sb.WriteString(")")
		return sb.String()
	case OExtract:
		return fmt.Sprintf("((_ extract %d %d) %s)", t.I1, t.I2, p.str(t.Args[0]))
	case OZext:
		return fmt.Sprintf("((_ zero_extend %d) %s)", t.I1, p.str(t.Args[0]))
	case OSext:
		return fmt.Sprintf("((_ sign_extend %d) %s)", t.I1, p.str(t.Args[0]))
	case OForall, OExists:
		q := "forall"
		if t.Op == OExists {
			q = "exists"
		}
		var sb strings.Builder
		sb.WriteString("(" + q + " (")
		for _, b := range t.Bnd {
			fmt.Fprintf(&sb, "(%s %s)", smtName(b.Name), b.S.key())
		}
		sb.WriteString(") " + p.str(t.Args[0]) + ")")
		return sb.String()
	case OConstArr:
		return fmt.Sprintf("((as const %s) %s)", t.S.key(), p.str(t.Args[0]))
	}
	n, ok := opNames[t.Op]
	if !ok {
		panic(fmt.Sprintf("print op %d", t.Op))
	}
	var sb strings.Builder
	sb.WriteString("(" + n)
	for _, a := range t.Args {
		sb.WriteString(" " + p.str(a))
	}
	sb.WriteString(")")
	return sb.String()
}

func (t *Term) String() string {
	p := &printer{named: map[*Term]string{}, refs: map[*Term]int{}}
	s := p.raw(t)
	if len(s) > 400 {
		return s[:400] + "…"
	}
	return s
}

// collectDecls finds all free symbols in the given terms.
func collectDecls(ts []*Term) (syms []*decl, sorts []string, quant bool, hasReal bool) {
	seen := map[*Term]bool{}
	ds := map[string]*decl{}
	us := map[string]bool{}
	var noteSort func(s *Sort)
	noteSort = func(s *Sort) {
		switch s.Kind {
		case SUn:
			us[s.Name] = true
		case SArr:
			noteSort(s.Idx)
			noteSort(s.Elem)
		case SReal:
			hasReal = true
		}
	}
	var rec func(t *Term)
	rec = func(t *Term) {
		if seen[t] {
			return
		}
		seen[t] = true
		noteSort(t.S)
		switch t.Op {
		case OVar, OApp:
			d := declTab[t.Name]
			ds[t.Name] = d
			for _, a := range d.args {
				noteSort(a)
			}
		case OForall, OExists:
			quant = true
			for _, b := range t.Bnd {
				noteSort(b.S)
			}
		}
		for _, a := range t.Args {
			rec(a)
		}
	}
	for _, t := range ts {
		rec(t)
	}
	for _, d := range ds {
		syms = append(syms, d)
	}
	sort.Slice(syms, func(i, j int) bool { return syms[i].name < syms[j].name })
	for s := range us {
		sorts = append(sorts, s)
	}
	sort.Strings(sorts)
	return
}

// BuildQuery renders an SMT-LIB script: assert all assumptions, assert the negated goal.
func BuildQuery(assumps []*Term, goal *Term, wantModel bool, extra []*Term) string {
	all := append(append([]*Term{}, assumps...), goal)
	all = append(all, extra...)
	syms, sorts, hasQ, _ := collectDecls(all)
	var sb strings.Builder
	if wantModel {
		sb.WriteString("(set-option :produce-models true)\n")
	}
	sb.WriteString("(set-logic ALL)\n")
	for _, s := range sorts {
		fmt.Fprintf(&sb, "(declare-sort %s 0)\n", s)
	}
	for _, d := range syms {
		fmt.Fprintf(&sb, "(declare-fun %s (", smtName(d.name))
		for i, a := range d.args {
			if i > 0 {
				sb.WriteString(" ")
			}
			sb.WriteString(a.key())
		}
		fmt.Fprintf(&sb, ") %s)\n", d.ret.key())
	}
	p := &printer{named: map[*Term]string{}, refs: map[*Term]int{}}
	for _, t := range all {
		p.count(t)
	}
	var asserts []string
	for _, a := range assumps {
		asserts = append(asserts, "(assert "+p.str(a)+")")
	}
	asserts = append(asserts, "(assert (not "+p.str(goal)+"))")
	var extras []string
	for _, x := range extra {
		extras = append(extras, p.str(x))
	}
	for _, d := range p.defs {
		sb.WriteString(d + "\n")
	}
	// inverse-function axioms for injective uninterpreted encodings
	have := map[string]bool{}
	for _, d := range syms {
		have[d.name] = true
	}
	// In a query without other quantifiers the axioms are emitted as their instances at the string terms that occur
	// (injectivity of the encoding on those terms is all a quantifier-free proof can use); this keeps the query
	// quantifier-free, which cvc5 in particular needs to answer at all.
	var strArgs []*Term
	if !hasQ {
		seenA := map[*Term]bool{}
		var walk func(t *Term)
		walk = func(t *Term) {
			if seenA[t] {
				return
			}
			seenA[t] = true
			if t.Op == OApp && (t.Name == "strid" || t.Name == "strcid") && len(t.Args) == 1 {
				strArgs = append(strArgs, t)
			}
			for _, a := range t.Args {
				walk(a)
			}
		}
		for _, t := range all {
			walk(t)
		}
	}
	if have["strcid"] && have["cidstr"] {
		if hasQ {
			sb.WriteString("(assert (forall ((s!ax Str)) (= (cidstr (strcid s!ax)) s!ax)))\n")
		}
	}
	if have["strid"] {
		sb.WriteString("(declare-fun idstr ((_ BitVec 64)) Str)\n")
		if hasQ {
			sb.WriteString("(assert (forall ((s!ax Str)) (= (idstr (strid s!ax)) s!ax)))\n")
		}
	}
	for _, t := range strArgs {
		inv := "idstr"
		if t.Name == "strcid" {
			if !have["cidstr"] {
				continue
			}
			inv = "cidstr"
		}
		a := p.str(t.Args[0])
		fmt.Fprintf(&sb, "(assert (= (%s (%s %s)) %s))\n", inv, t.Name, a, a)
	}
	for _, a := range asserts {
		sb.WriteString(a + "\n")
	}
	sb.WriteString("(check-sat)\n")
	if wantModel {
		var names []string
		for _, d := range syms {
			if len(d.args) == 0 && (d.ret.Kind == SBV || d.ret.Kind == SBool || d.ret.Kind == SReal) {
				names = append(names, smtName(d.name))
			}
		}
		if len(names) > 0 {
			if len(names) > 400 {
				names = names[:400]
			}
			sb.WriteString("(get-value (" + strings.Join(names, " ") + "))\n")
		}
		if len(extras) > 0 {
			sb.WriteString("(get-value (" + strings.Join(extras, " ") + "))\n")
		}
	}
	return sb.String()
}
