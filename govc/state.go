package main

// Symbolic state: path condition, Burstall-style memory (one SMT array per leaf cell), call stack.

import (
	"fmt"
	"go/token"
	"go/types"
	"sort"
	"strings"

	"golang.org/x/tools/go/ssa"
)

type Frame struct {
	fn       *ssa.Function
	regs     map[ssa.Value]Val
	blk      *ssa.BasicBlock
	prev     *ssa.BasicBlock
	ip       int
	defers   []deferred
	bind     ssa.Value       // value in the caller frame to bind the result to (nil: discard)
	callSite ssa.Instruction // call instruction in the caller
	visits   map[int]int
	closure  *FuncInfo
	isTop    bool // frame of the function under verification (or of a pure evaluation)
	deferred bool // frame runs a deferred call: result discarded
}

type deferred struct {
	fnv  Val // function value (FuncInfo in funcTab) or nil
	fn   *ssa.Function
	args []Val
	call *ssa.CallCommon
}

type State struct {
	pc      []*Term
	mem     map[string]*Term
	nextRef uint64
	stack   []*Frame
	ghost   map[string]Val
	trace   []string
	notes   []string // imprecision notes (havoc'd calls etc.)
	entry   *State   // snapshot at function entry (for old())
	depth   int
	env     map[string]Val // contract-level bindings for the function under verification (params)
	// loop bookkeeping for the function under verification
	loopSnap map[int]*State
	dead     bool
	// modset tracking for frame conditions: cells written since entry (key -> true)
	written map[string]bool
	// allocation sizes for alloccap obligations etc.
	steps  int
	pcSet  map[int]bool
	noWF   bool
	stamp  int
	wrefs  map[string]map[*Term]bool // during loop write discovery: object references written per cell
	isPure bool                      // sub-state of a pure evaluation inside a contract expression (may mention bound variables)
}

func newState() *State {
	return &State{mem: map[string]*Term{}, nextRef: freshRefBase, ghost: map[string]Val{}, env: map[string]Val{}, written: map[string]bool{}}
}

func (st *State) clone() *State {
	n := *st
	n.pcSet = nil
	n.pc = append([]*Term(nil), st.pc...)
	n.mem = make(map[string]*Term, len(st.mem))
	for k, v := range st.mem {
		n.mem[k] = v
	}
	n.ghost = make(map[string]Val, len(st.ghost))
	for k, v := range st.ghost {
		n.ghost[k] = v
	}
	n.written = make(map[string]bool, len(st.written))
	for k, v := range st.written {
		n.written[k] = v
	}
	if st.wrefs != nil {
		n.wrefs = make(map[string]map[*Term]bool, len(st.wrefs))
		for k, m := range st.wrefs {
			nm := make(map[*Term]bool, len(m))
			for t := range m {
				nm[t] = true
			}
			n.wrefs[k] = nm
		}
	}
	n.stack = make([]*Frame, len(st.stack))
	for i, f := range st.stack {
		nf := *f
		nf.regs = make(map[ssa.Value]Val, len(f.regs))
		for k, v := range f.regs {
			nf.regs[k] = v
		}
		nf.defers = append([]deferred(nil), f.defers...)
		nf.visits = make(map[int]int, len(f.visits))
		for k, v := range f.visits {
			nf.visits[k] = v
		}
		n.stack[i] = &nf
	}
	n.trace = append([]string(nil), st.trace...)
	n.notes = append([]string(nil), st.notes...)
	return &n
}

// snapshot is a cheap copy sufficient for evaluating old(): memory + ghost + pc.
func (st *State) snapshot() *State {
	n := &State{nextRef: st.nextRef}
	n.mem = make(map[string]*Term, len(st.mem))
	for k, v := range st.mem {
		n.mem[k] = v
	}
	n.ghost = make(map[string]Val, len(st.ghost))
	for k, v := range st.ghost {
		n.ghost[k] = v
	}
	n.env = st.env
	n.pc = append([]*Term(nil), st.pc...)
	n.written = map[string]bool{}
	return n
}

func (st *State) assume(t *Term) {
	if t.IsTrue() {
		return
	}
	if t.IsFalse() {
		st.dead = true
	}
	if t.hasBound && !st.isPure {
		panic(fmt.Errorf("internal: assumption with a free bound variable: %s", t))
	}
	if t.Op == OAnd {
		for _, a := range t.Args {
			st.assume(a)
		}
		return
	}
	if st.pcSet == nil {
		st.pcSet = make(map[int]bool, len(st.pc)+8)
		for _, p := range st.pc {
			st.pcSet[p.id] = true
		}
	}
	if st.pcSet[t.id] {
		return
	}
	st.pcSet[t.id] = true
	st.pc = append(st.pc, t)
}

// constEqs: the equalities "term == constant" of the path condition as a rewrite map.
func (st *State) constEqs() map[*Term]*Term {
	var m map[*Term]*Term
	for _, p := range st.pc {
		if p.Op != OEq || len(p.Args) != 2 {
			continue
		}
		a, b := p.Args[0], p.Args[1]
		if a.Op == OConst && b.Op != OConst {
			a, b = b, a
		}
		if b.Op == OConst && a.Op != OConst && a.S.Kind == SBV {
			if m == nil {
				m = map[*Term]*Term{}
			}
			m[a] = b
		}
	}
	return m
}

// knows reports whether t is literally part of the path condition.
func (st *State) knows(t *Term) bool {
	if t.Op == OAnd {
		for _, a := range t.Args {
			if !st.knows(a) {
				return false
			}
		}
		return true
	}
	if st.pcSet == nil {
		st.pcSet = make(map[int]bool, len(st.pc)+8)
		for _, p := range st.pc {
			st.pcSet[p.id] = true
		}
	}
	return st.pcSet[t.id]
}

func (st *State) top() *Frame { return st.stack[len(st.stack)-1] }

func (st *State) alloc() *Term {
	st.nextRef++
	return BVConst(st.nextRef, 64)
}

// ---------- memory cells ----------

func idxTerm(idx []*Term) *Term {
	t := idx[0]
	for _, i := range idx[1:] {
		t = Concat(t, i)
	}
	return t
}

func cellSort(nidx int, elem *Sort) *Sort { return ArrSort(BV(64*nidx), elem) }

func (st *State) cellArr(key string, nidx int, elem *Sort) *Term {
	if a, ok := st.mem[key]; ok {
		return a
	}
	a := Var("H0|"+key, cellSort(nidx, elem))
	st.mem[key] = a
	return a
}

func (st *State) loadLeaf(key string, idx []*Term, s *Sort) *Term {
	return Select(st.cellArr(key, len(idx), s), idxTerm(idx))
}

var stampSeq int

// memStamp identifies the current memory contents (changes on every write); used to memoise pure evaluations.
func (st *State) memStamp() uint64 {
	var h uint64
	for k, v := range st.mem {
		var kh uint64 = 1469598103934665603
		for i := 0; i < len(k); i++ {
			kh ^= uint64(k[i])
			kh *= 1099511628211
		}
		h += kh * (uint64(v.id)*2654435761 + 12345)
	}
	return h
}

func (st *State) storeLeaf(key string, idx []*Term, v *Term) {
	a := st.cellArr(key, len(idx), v.S)
	st.mem[key] = Store(a, idxTerm(idx), v)
	st.written[key] = true
	if st.wrefs != nil {
		m := st.wrefs[key]
		if m == nil {
			m = map[*Term]bool{}
			st.wrefs[key] = m
		}
		m[idx[0]] = true
	}
}

func pathKey(pi *PtrInfo) (string, []*Term) {
	var sb strings.Builder
	sb.WriteString(pi.Root)
	sb.WriteString("|")
	idx := []*Term{pi.Ref}
	for _, s := range pi.Path {
		if s.Idx != nil {
			sb.WriteString("[]")
			idx = append(idx, s.Idx)
		} else {
			sb.WriteString("." + s.Field)
		}
	}
	return sb.String(), idx
}

func (pi *PtrInfo) field(name string, ft types.Type) *PtrInfo {
	np := append(append([]Step(nil), pi.Path...), Step{Field: name})
	return &PtrInfo{Ref: pi.Ref, Root: pi.Root, Path: np, Elem: ft}
}
func (pi *PtrInfo) index(i *Term, et types.Type) *PtrInfo {
	np := append(append([]Step(nil), pi.Path...), Step{Idx: i})
	return &PtrInfo{Ref: pi.Ref, Root: pi.Root, Path: np, Elem: et}
}

// loadAt reads a value of type T from location pi.
func (st *State) loadAt(pi *PtrInfo, T types.Type) Val {
	var L []*Term
	sym, open := false, false
	st.walk(pi, T, func(key string, idx []*Term, s *Sort) {
		t := st.loadLeaf(key, idx, s)
		if t.Op == OSelect {
			sym = true
		}
		if t.hasBound {
			open = true
		}
		L = append(L, t)
	})
	v := Val{T, L}
	if sym && !open && !st.noWF {
		// values read from the symbolic heap are well-formed Go values (slice 0 <= len <= cap, bounded sizes)
		st.assumeSliceWF(v)
		// a reference read from the untouched initial heap denotes an object that existed at entry: it cannot be one of
		// the objects allocated on this path
		kinds := leafKinds(T)
		for i, t := range L {
			if i < len(kinds) && (kinds[i] == lkRef || kinds[i] == lkPl) && t.Op == OSelect && t.Args[0].Op == OVar && strings.HasPrefix(t.Args[0].Name, "H0") {
				st.assume(Ult(t, BVConst(freshRefBase, 64)))
			}
		}
	}
	return v
}
func (st *State) storeAt(pi *PtrInfo, v Val) {
	i := 0
	st.walk(pi, v.T, func(key string, idx []*Term, s *Sort) {
		st.storeLeaf(key, idx, v.L[i])
		i++
	})
}

// walk enumerates the leaf cells of a value of type T stored at pi, in layout order.
func (st *State) walk(pi *PtrInfo, T types.Type, f func(key string, idx []*Term, s *Sort)) {
	switch u := T.Underlying().(type) {
	case *types.Struct:
		for i := 0; i < u.NumFields(); i++ {
			fl := u.Field(i)
			st.walk(pi.field(fl.Name(), fl.Type()), fl.Type(), f)
		}
	case *types.Array:
		if len(pi.Path) == 0 && pi.Root == arrRoot(u.Elem()) {
			// root array object: elements live in arr<Elem> cells indexed (ref, k)
			for k := int64(0); k < u.Len(); k++ {
				st.walk(&PtrInfo{Ref: pi.Ref, Root: pi.Root, Path: []Step{{Idx: BVConst(uint64(k), 64)}}, Elem: u.Elem()}, u.Elem(), f)
			}
			return
		}
		for k := int64(0); k < u.Len(); k++ {
			st.walk(pi.index(BVConst(uint64(k), 64), u.Elem()), u.Elem(), f)
		}
	default:
		key, idx := pathKey(pi)
		ss := leafSorts(T)
		if len(ss) == 1 {
			f(key, idx, ss[0])
		} else {
			for j, s := range ss {
				f(fmt.Sprintf("%s#%d", key, j), idx, s)
			}
		}
	}
}

// cellsOf lists the cell keys (with index arity) a value of type T at pi occupies.
func (st *State) cellsOf(pi *PtrInfo, T types.Type) []string {
	var out []string
	st.walk(pi, T, func(key string, idx []*Term, s *Sort) { out = append(out, key) })
	return out
}

// havocAt replaces the value at pi with a fresh one and returns it.
func (st *State) havocAt(pi *PtrInfo, T types.Type, prefix string) Val {
	v := freshValAny(T, prefix)
	st.assumeSliceWF(v)
	st.assumeRefsExist(v)
	st.storeAt(pi, v)
	return v
}

// assumeRefsOld adds the well-formedness assumptions for a fresh symbolic value:
// slice 0 <= len <= cap, off+cap small, references below the fresh-allocation watermark.
func (st *State) assumeRefsOld(v Val) {
	kinds := leafKinds(v.T)
	for i, k := range kinds {
		switch k {
		case lkRef, lkPl:
			st.assume(Ult(v.L[i], BVConst(freshRefBase, 64)))
		}
	}
	st.assumeSliceWF(v)
}

const maxLen = uint64(1) << 40

func (st *State) assumeSliceWF(v Val) {
	var rec func(T types.Type, L []*Term)
	rec = func(T types.Type, L []*Term) {
		switch u := T.Underlying().(type) {
		case *types.Slice:
			ref, off, ln, cp := L[0], L[1], L[2], L[3]
			st.assume(Ule(ln, cp))
			st.assume(Ule(cp, BVConst(maxLen, 64)))
			st.assume(Ule(off, BVConst(maxLen, 64)))
			st.assume(Implies(Eq(ref, BVConst(0, 64)), Eq(cp, BVConst(0, 64))))
		case *types.Struct:
			o := 0
			for i := 0; i < u.NumFields(); i++ {
				n := len(leafSorts(u.Field(i).Type()))
				rec(u.Field(i).Type(), L[o:o+n])
				o += n
			}
		case *types.Array:
			n := len(leafSorts(u.Elem()))
			for i := int64(0); i < u.Len(); i++ {
				rec(u.Elem(), L[int(i)*n:int(i+1)*n])
			}
		case *types.Tuple:
			o := 0
			for i := 0; i < u.Len(); i++ {
				n := len(leafSorts(u.At(i).Type()))
				rec(u.At(i).Type(), L[o:o+n])
				o += n
			}
		case *types.Basic:
			if u.Info()&types.IsString != 0 {
				st.assume(Ule(strLen(L[0]), BVConst(maxLen, 64)))
			}
		}
	}
	rec(v.T, v.L)
}

func (st *State) note(s string) {
	for _, n := range st.notes {
		if n == s {
			return
		}
	}
	st.notes = append(st.notes, s)
}

func (st *State) memKeys() []string {
	var ks []string
	for k := range st.mem {
		ks = append(ks, k)
	}
	sort.Strings(ks)
	return ks
}

// havocAll forgets everything about the symbolic heap (used for calls outside reach).
// Objects allocated by the function under verification that never escaped are kept precise
// only in the sense that fresh references stay distinct; their contents are forgotten too.
func (st *State) havocAll(why string) {
	for _, k := range st.memKeys() {
		old := st.mem[k]
		st.mem[k] = FreshVar("Hh|"+k, old.S)
		st.written[k] = true
	}
	st.note("heap havoc: " + why)
}

func posString(fset *token.FileSet, p token.Pos) string {
	if !p.IsValid() {
		return "?"
	}
	ps := fset.Position(p)
	f := ps.Filename
	if i := strings.Index(f, "/pkg/"); i >= 0 {
		f = f[i+1:]
	}
	return fmt.Sprintf("%s:%d", f, ps.Line)
}

// assumeRefsExist: every reference held by a value denotes an object that exists now (an object that predates the
// function, or one allocated so far on this path); objects allocated by callees outside reach are modelled as
// predating ones.
func (st *State) assumeRefsExist(v Val) {
	for i, k := range leafKinds(v.T) {
		if k == lkRef || k == lkPl {
			st.assume(Ule(v.L[i], BVConst(st.nextRef, 64)))
		}
	}
}
