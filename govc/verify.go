package main

// Function-level verification: entry state, postconditions, modular contract application, frames.

import (
	"fmt"
	"go/ast"
	"go/token"
	"go/types"
	"os"
	"regexp"
	"runtime"
	"runtime/debug"
	"sort"
	"strings"

	"golang.org/x/tools/go/ssa"
)

var tokOf = map[string]token.Token{
	"+": token.ADD, "-": token.SUB, "*": token.MUL, "/": token.QUO, "%": token.REM,
	"&": token.AND, "|": token.OR, "^": token.XOR, "<<": token.SHL, ">>": token.SHR, "&^": token.AND_NOT,
	"==": token.EQL, "!=": token.NEQ, "<": token.LSS, "<=": token.LEQ, ">": token.GTR, ">=": token.GEQ,
}

const tokenLSS = token.LSS

type funcResult struct {
	Func    string
	Shape   string // hash of the function's source modulo local names (shape.go)
	Locals  []string
	Reach   string
	Paths   int
	Returns int
	Cases   []string
}

func caseNames(c *Contract) []string {
	seen := map[string]bool{}
	out := []string{""}
	for _, cl := range c.Clauses {
		if cl.Case != "" && !seen[cl.Case] {
			seen[cl.Case] = true
			out = append(out, cl.Case)
		}
	}
	return out
}

func (e *Engine) wantClause(cl *Clause, c *Contract) bool {
	if e.propFilter == "" {
		return true
	}
	props := cl.Props
	if props == nil {
		props = c.Props
	}
	for _, p := range props {
		if p == e.propFilter {
			return true
		}
	}
	return false
}

func (e *Engine) verifyFunc(fn *ssa.Function, c *Contract) *funcResult {
	res := &funcResult{Func: e.fnKey(fn)}
	for _, cn := range caseNames(c) {
		if cn != "" {
			// skip behaviours that have no clause for the selected property
			any := false
			for _, cl := range c.Clauses {
				if cl.Case == cn && cl.Kind == "ensures" && e.wantClause(cl, c) {
					any = true
				}
			}
			if !any {
				continue
			}
		}
		e.verifyCase(fn, c, cn, res)
	}
	return res
}

func (e *Engine) newTopFrame(fn *ssa.Function) *Frame {
	return &Frame{fn: fn, regs: map[ssa.Value]Val{}, blk: fn.Blocks[0], visits: map[int]int{}, isTop: true}
}

var unknownIdentRe = regexp.MustCompile(`unknown identifier "([^"]+)" in contract`)

// identInSource: does the identifier occur anywhere in the source of fn's outermost enclosing function?
func identInSource(fn *ssa.Function, name string) bool {
	top := fn
	for top.Parent() != nil {
		top = top.Parent()
	}
	node := top.Syntax()
	if node == nil {
		return false
	}
	found := false
	ast.Inspect(node, func(n ast.Node) bool {
		if id, ok := n.(*ast.Ident); ok && id.Name == name {
			found = true
		}
		return !found
	})
	return found
}

func (e *Engine) verifyCase(fn *ssa.Function, c *Contract, caseName string, res *funcResult) {
	vc := &verifCtx{fn: fn, c: c, caseName: caseName, inputs: map[string]Val{}}
	e.cur = vc
	defer func() {
		if r := recover(); r != nil {
			if er, ok := r.(error); ok {
				vc.reach = "contract error: " + er.Error()
				// a missing name that still occurs in the (enclosing) function's source was not renamed away: the
				// code changed in a way that takes the variable out of this function's scope or capture set
				if m := unknownIdentRe.FindStringSubmatch(er.Error()); m != nil && identInSource(fn, m[1]) {
					vc.reach = "contract error (name still used by the enclosing function): " + er.Error()
				}
				if _, isRT := r.(runtime.Error); isRT && os.Getenv("GOVC_DEBUG") != "" {
					debug.PrintStack()
				}
			} else {
				panic(r)
			}
		}
		res.Paths += vc.paths
		res.Returns += vc.results
		if vc.reach != "" && res.Reach == "" {
			res.Reach = vc.reach
			if caseName != "" {
				res.Reach = "case " + caseName + ": " + vc.reach
			}
		}
		res.Cases = append(res.Cases, caseName)
	}()
	if fn.Blocks == nil {
		vc.reach = "no body"
		return
	}
	st := newState()
	fr := e.newTopFrame(fn)
	st.stack = []*Frame{fr}
	env := map[string]Val{}
	for _, p := range fn.Params {
		v := freshVal(p.Type(), "p_"+p.Name())
		st.assumeRefsOld(v)
		fr.regs[p] = v
		env[p.Name()] = v
		vc.inputs[p.Name()] = v
	}
	if len(fn.FreeVars) > 0 {
		fi := &FuncInfo{Fn: fn}
		for _, fv := range fn.FreeVars {
			v := freshVal(fv.Type(), "fv_"+fv.Name())
			st.assumeRefsOld(v)
			if isPointer(fv.Type()) {
				st.assume(Not(Eq(v.t(), BVConst(0, 64))))
			}
			fi.Bind = append(fi.Bind, v)
			vc.inputs["fv:"+fv.Name()] = v
			env["&"+fv.Name()] = v
		}
		fr.closure = fi
	}
	if recv := fn.Signature.Recv(); recv != nil && isPointer(recv.Type()) && len(fn.Params) > 0 {
		st.assume(Not(Eq(fr.regs[fn.Params[0]].t(), BVConst(0, 64))))
	}
	st.env = env
	vc.replay = e.buildReplayInfo(st, fn, fr)
	pkg := fn.Package().Pkg
	ctx := &evalCtx{e: e, st: st, env: env, pkg: pkg, fr: fr}
	// ghost / let bindings evaluated at entry
	for _, cl := range c.Clauses {
		if (cl.Kind == "ghost" || cl.Kind == "let") && (cl.Case == "" || cl.Case == caseName) {
			if cl.Expr != nil {
				env[cl.Name] = e.eval(ctx, cl.Expr)
			} else {
				T := e.resolveType(cl.Text, pkg)
				if T == nil {
					panic(fmt.Errorf("%s:%d: unknown type %s", cl.File, cl.Line, cl.Text))
				}
				v := freshVal(T, "g_"+cl.Name)
				st.assumeRefsOld(v)
				env[cl.Name] = v
				vc.inputs["ghost:"+cl.Name] = v
			}
		}
	}
	var reqs []*Term
	for _, cl := range c.Clauses {
		if cl.Kind == "requires" && (cl.Case == "" || cl.Case == caseName) {
			t := e.evalBool(ctx, cl.Expr)
			reqs = append(reqs, t)
			st.assume(t)
		}
	}
	// vacuity: preconditions must be satisfiable
	e.obls = append(e.obls, &Obligation{Name: e.oname("vacuity/requires-sat"), Func: e.fnKey(fn), Kind: "cover", PC: append([]*Term(nil), st.pc...), Goal: False, Props: c.Props, Pos: posString(e.fset, fn.Pos())})
	st.entry = st.snapshot()
	vc.entry = st.entry
	e.work = []*State{st}
	e.runPaths()
	if vc.results == 0 && vc.reach == "" {
		vc.reach = "no normal return reached"
	}
}

func (e *Engine) oname(s string) string {
	n := shortFn(e.cur.fn) + "/"
	if e.cur.caseName != "" {
		n += "case:" + e.cur.caseName + "/"
	}
	return n + s
}

func resultNames(fn *ssa.Function) []string {
	rs := fn.Signature.Results()
	out := make([]string, rs.Len())
	for i := 0; i < rs.Len(); i++ {
		n := rs.At(i).Name()
		if n == "" || n == "_" {
			if rs.Len() == 1 {
				n = "result"
			} else {
				n = fmt.Sprintf("result%d", i)
			}
		}
		out[i] = n
	}
	return out
}

func bindResults(env map[string]Val, fn *ssa.Function, res Val) {
	rs := fn.Signature.Results()
	names := resultNames(fn)
	switch rs.Len() {
	case 0:
	case 1:
		res.T = rs.At(0).Type()
		env[names[0]] = res
		env["result"] = res
	default:
		tv := Val{rs, res.L}
		for i := range names {
			env[names[i]] = tv.tupleElem(i)
			env[fmt.Sprintf("result%d", i)] = tv.tupleElem(i)
		}
	}
}

func (e *Engine) atReturn(st *State, fr *Frame, res Val, x *ssa.Return) {
	vc := e.cur
	if vc.collect != nil {
		vc.collect(st, res)
		return
	}
	if vc.discover {
		return
	}
	vc.results++
	c := vc.c
	if os.Getenv("GOVC_DEBUG") != "" {
		fmt.Printf("  return %s trace=%v res=%v\n", shortFn(vc.fn), st.trace, res.L)
	}
	env := map[string]Val{}
	for k, v := range st.env {
		env[k] = v
	}
	bindResults(env, vc.fn, res)
	ctx := &evalCtx{e: e, st: st, old: st.entry, env: env, pkg: vc.fn.Package().Pkg}
	pos := vc.fn.Pos()
	if x != nil {
		pos = x.Pos()
	}
	for _, cl := range c.Clauses {
		if cl.Case != "" && cl.Case != vc.caseName {
			continue
		}
		if !e.wantClause(cl, c) {
			continue
		}
		switch cl.Kind {
		case "atreturn":
			// like ensures, but evaluated at the return statement with the function's local variables in scope
			if vc.caseName != cl.Case || x == nil {
				continue
			}
			fctx := e.frameCtx(st, fr, x.Block())
			for k, v := range env {
				if _, have := fctx.env[k]; !have || strings.HasPrefix(k, "result") {
					fctx.env[k] = v
				}
			}
			g := e.evalBool(fctx, cl.Expr)
			e.curClause = cl
			e.oblige(st.cloneForOblige(), "ensures", fmt.Sprintf("atreturn#%d", cl.Ord), g, pos, cl.Props, cl.Text)
			e.curClause = nil
		case "ensures":
			if vc.caseName != "" && cl.Case == "" {
				continue // unconditional clauses are checked in the unconditional run
			}
			g := e.evalBool(ctx, cl.Expr)
			e.curClause = cl
			e.oblige(st.cloneForOblige(), "ensures", fmt.Sprintf("ensures#%d", cl.Ord), g, pos, cl.Props, cl.Text)
			e.curClause = nil
		case "cover":
			// some execution must reach a return in a state satisfying the expression (vacuity / reachability guard)
			if vc.caseName != cl.Case {
				continue
			}
			g := e.evalBool(ctx, cl.Expr)
			if g.IsFalse() {
				// not on this path; remember that the clause exists so that "no instance at all" is reported as vacuous
				e.obls = append(e.obls, &Obligation{Name: e.oname(fmt.Sprintf("vacuity/cover#%d", cl.Ord)), Func: e.fnKey(vc.fn), Kind: "cover", Goal: True, Trivial: true, Status: "unsat", Props: c.Props, Pos: posString(e.fset, pos), Clause: cl.Text})
				continue
			}
			e.obls = append(e.obls, &Obligation{Name: e.oname(fmt.Sprintf("vacuity/cover#%d", cl.Ord)), Func: e.fnKey(vc.fn), Kind: "cover", PC: append([]*Term(nil), st.pc...), Goal: Not(g), Props: c.Props, Pos: posString(e.fset, pos), Clause: cl.Text})
		case "canary":
			if vc.caseName != cl.Case {
				continue
			}
			g := e.evalBool(ctx, cl.Expr)
			o := &Obligation{Name: e.oname(fmt.Sprintf("canary#%d", cl.Ord)), Func: e.fnKey(vc.fn), Kind: "canary", PC: append([]*Term(nil), st.pc...), Goal: g, Props: cl.Props, Pos: posString(e.fset, pos), Clause: cl.Text}
			if o.Props == nil {
				o.Props = c.Props
			}
			e.obls = append(e.obls, o)
		}
	}
	// cover: this return is reachable
	e.obls = append(e.obls, &Obligation{Name: e.oname("vacuity/return-reachable"), Func: e.fnKey(vc.fn), Kind: "cover", PC: append([]*Term(nil), st.pc...), Goal: False, Props: c.Props, Pos: posString(e.fset, pos)})
}

// cloneForOblige: obligations at return must not strengthen each other (each ensures is proved independently).
func (st *State) cloneForOblige() *State {
	n := *st
	n.pcSet = nil
	n.pc = append([]*Term(nil), st.pc...)
	return &n
}

func (e *Engine) frameCtx(st *State, fr *Frame, at *ssa.BasicBlock) *evalCtx {
	env := map[string]Val{}
	for k, v := range st.env {
		env[k] = v
	}
	var pkg *types.Package
	if fr.fn.Package() != nil {
		pkg = fr.fn.Package().Pkg
	} else if fr.fn.Parent() != nil && fr.fn.Parent().Package() != nil {
		pkg = fr.fn.Parent().Package().Pkg
	}
	return &evalCtx{e: e, st: st, old: st.entry, env: env, pkg: pkg, fr: fr, at: at}
}

// ---------- modular contract application ----------

func (e *Engine) callSiteName(kind string, callee string, in ssa.Instruction) string {
	return e.siteName(kind+"@"+callee, in)
}

func (e *Engine) applyContract(st *State, fr *Frame, fn *ssa.Function, c *Contract, args []Val, in ssa.Instruction) Val {
	env := map[string]Val{}
	for i, p := range fn.Params {
		a := args[i]
		a.T = p.Type()
		env[p.Name()] = a
	}
	var pkg *types.Package
	if fn.Package() != nil {
		pkg = fn.Package().Pkg
	} else if sp := e.pkgByPath(c.Pkg); sp != nil {
		pkg = sp
	}
	return e.applyContractEnv(st, fr, c, env, pkg, fn.Signature, shortFn(fn), resultNamesSig(fn.Signature), in)
}

func resultNamesSig(sig *types.Signature) []string {
	rs := sig.Results()
	out := make([]string, rs.Len())
	for i := 0; i < rs.Len(); i++ {
		n := rs.At(i).Name()
		if n == "" || n == "_" {
			if rs.Len() == 1 {
				n = "result"
			} else {
				n = fmt.Sprintf("result%d", i)
			}
		}
		out[i] = n
	}
	return out
}

func (e *Engine) applyIfaceContract(st *State, fr *Frame, recv Val, m *types.Func, c *Contract, args []Val, in ssa.Instruction) Val {
	sig := m.Type().(*types.Signature)
	env := map[string]Val{"self": recv}
	for i := 0; i < sig.Params().Len(); i++ {
		n := sig.Params().At(i).Name()
		if n == "" {
			n = fmt.Sprintf("arg%d", i)
		}
		a := args[i]
		a.T = sig.Params().At(i).Type()
		env[n] = a
		env[fmt.Sprintf("arg%d", i)] = a
	}
	return e.applyContractEnv(st, fr, c, env, e.pkgByPath(c.Pkg), sig, c.Func, resultNamesSig(sig), in)
}

func (e *Engine) applyContractEnv(st *State, fr *Frame, c *Contract, env map[string]Val, pkg *types.Package, sig *types.Signature, calleeName string, rnames []string, in ssa.Instruction) Val {
	ctx := &evalCtx{e: e, st: st, env: env, pkg: pkg}
	// ghost parameters of the callee: existentially chosen by the caller = fresh here (sound only for "let"-style definitions)
	for _, cl := range c.Clauses {
		if (cl.Kind == "ghost" || cl.Kind == "let") && cl.Case == "" {
			if cl.Expr != nil {
				env[cl.Name] = e.eval(ctx, cl.Expr)
			}
		}
	}
	for _, cl := range c.Clauses {
		if cl.Kind == "requires" && cl.Case == "" {
			g := e.evalBool(ctx, cl.Expr)
			props := cl.Props
			if props == nil {
				props = c.Props
			}
			e.oblige(st, "requires", e.callSiteName("requires", calleeName, in)+fmt.Sprintf(".%d", cl.Ord), g, in.Pos(), unionProps(props, e.cur.c.Props), cl.Text)
		}
	}
	// references for freshref(...) in the ensures clauses are reserved before the assigned locations are forgotten, so
	// that a forgotten reference may turn out to be one of them
	var freshPool []uint64
	for _, cl := range c.Clauses {
		if cl.Kind == "ensures" && cl.Case == "" {
			for k := strings.Count(cl.Text, "freshref("); k > 0; k-- {
				st.nextRef++
				freshPool = append(freshPool, st.nextRef)
			}
		}
	}
	pre := st.snapshot()
	pctx := &evalCtx{e: e, st: pre, env: env, pkg: pkg}
	assigns := c.clauses("assigns")
	if len(assigns) == 0 {
		st.havocAll("callee " + calleeName + " has no assigns clause")
	} else {
		for _, cl := range assigns {
			for _, ex := range cl.Exprs {
				if call, ok := ex.(*ECall); !ok || !isRegionCall(call) {
					pi, T := e.evalAddr(pctx, ex)
					if e.cur.c != nil && !e.cur.discover {
						e.checkAssigns(st, pi, T, in)
					}
				}
				e.havocLoc(st, pctx, ex)
			}
		}
	}
	// results
	var res Val
	rs := sig.Results()
	switch rs.Len() {
	case 0:
		res = Val{rs, nil}
	case 1:
		res = freshValAny(rs.At(0).Type(), "r_"+calleeName)
	default:
		res = freshValAny(rs, "r_"+calleeName)
	}
	// results may refer to objects passed in by the caller, including ones allocated during this call
	st.assumeSliceWF(res)
	st.assumeRefsExist(res)
	// fresh results: "fresh NAME" clauses give newly allocated references
	renv := map[string]Val{}
	for k, v := range env {
		renv[k] = v
	}
	bindNamed := func() {
		switch rs.Len() {
		case 0:
		case 1:
			res.T = rs.At(0).Type()
			renv[rnames[0]] = res
			renv["result"] = res
		default:
			tv := Val{rs, res.L}
			for i := range rnames {
				renv[rnames[i]] = tv.tupleElem(i)
				renv[fmt.Sprintf("result%d", i)] = tv.tupleElem(i)
			}
		}
	}
	bindNamed()
	for _, cl := range c.clauses("fresh") {
		name := strings.TrimSpace(cl.Text)
		// replace the reference leaf of the named result by a fresh allocation
		off := 0
		for i := range rnames {
			var T types.Type = rs.At(i).Type()
			n := len(leafSorts(T))
			if rnames[i] == name || (name == "result" && rs.Len() == 1) {
				ref := st.alloc()
				res.L[off] = ref
				if sl, ok := T.Underlying().(*types.Slice); ok {
					res.L[off+1] = BVConst(0, 64)
					e.zeroSlice(st, sl.Elem(), ref)
				}
			}
			off += n
		}
	}
	bindNamed()
	actx := &evalCtx{e: e, st: st, old: pre, env: renv, pkg: pkg, freshPool: &freshPool}
	// ghost parameters of the callee without initialiser are universally quantified in its proof: the caller may
	// use the postconditions for every value (bound variables per leaf)
	var bounds []*Term
	for _, cl := range c.Clauses {
		if cl.Kind == "ghost" && cl.Case == "" && cl.Expr == nil {
			T := e.resolveType(cl.Text, pkg)
			if T == nil {
				panic(fmt.Errorf("%s:%d: unknown type %s", cl.File, cl.Line, cl.Text))
			}
			ss := leafSorts(T)
			L := make([]*Term, len(ss))
			for i, srt := range ss {
				L[i] = Bound(cl.Name, srt)
				bounds = append(bounds, L[i])
			}
			renv[cl.Name] = Val{T, L}
		}
	}
	// "preserves e1, e2": whatever else the (assumed) callee changes, these expressions keep their values
	for _, cl := range c.clauses("preserves") {
		for _, ex := range cl.Exprs {
			pv := e.eval(pctx, ex)
			nv := e.eval(&evalCtx{e: e, st: st, env: env, pkg: pkg}, ex)
			if len(pv.L) != len(nv.L) {
				panic(fmt.Errorf("%s:%d: preserves: shape mismatch", cl.File, cl.Line))
			}
			for i := range pv.L {
				st.assume(Eq(nv.L[i], pv.L[i]))
			}
		}
	}
	for _, cl := range c.Clauses {
		if cl.Kind == "ensures" && cl.Case == "" {
			t := e.evalBool(actx, cl.Expr)
			if len(bounds) > 0 && t.hasBound {
				t = Forall(bounds, t)
			}
			st.assume(t)
		}
	}
	e.stats["contract:"+calleeName]++
	return res
}

func unionProps(a, b []string) []string {
	seen := map[string]bool{}
	var out []string
	for _, x := range append(append([]string{}, a...), b...) {
		if !seen[x] {
			seen[x] = true
			out = append(out, x)
		}
	}
	sort.Strings(out)
	return out
}

// havocLoc forgets the value at an assigns location (evaluated in the pre-state ctx, written into st).
func (e *Engine) havocLoc(st *State, pctx *evalCtx, ex Expr) {
	// elems(s): all elements of a slice
	if call, ok := ex.(*ECall); ok {
		if id, ok := call.Fun.(*EIdent); ok && id.Name == "elems" {
			s := e.eval(pctx, call.Args[0])
			et := s.T.Underlying().(*types.Slice).Elem()
			e.havocRegion(st, et, s.sRef(), s.sOff(), s.sLen())
			return
		}
		if id, ok := call.Fun.(*EIdent); ok && (id.Name == "wstream" || id.Name == "rstream") {
			s := e.resolveAlias(st, streamRef(e.eval(pctx, call.Args[0])))
			e.havocStream(st, s, id.Name == "wstream")
			return
		}
		if id, ok := call.Fun.(*EIdent); ok && id.Name == "bstream" {
			s := e.resolveAlias(st, streamRef(e.eval(pctx, call.Args[0])))
			np := FreshVar("bpos", Ref64)
			st.assume(Ule(bsPos(st, s), np))
			st.assume(Ule(np, bsEnd(st, s)))
			st.storeLeaf("bs|pos", []*Term{s}, np)
			return
		}
		if id, ok := call.Fun.(*EIdent); ok && id.Name == "mapof" {
			m := e.eval(pctx, call.Args[0])
			root := mapRoot(m.T)
			for _, k := range st.memKeys() {
				if strings.HasPrefix(k, root+"|") {
					st.mem[k] = FreshVar("Hm|"+k, st.mem[k].S)
					st.written[k] = true
				}
			}
			// make sure the cells exist even if never touched before
			for _, suffix := range []string{"|has", "|len"} {
				if _, ok := st.mem[root+suffix]; !ok {
					// created lazily on first access with H0 name; mark by touching with fresh var of right sort later
				}
			}
			return
		}
	}
	pi, T := e.evalAddr(pctx, ex)
	st.havocAt(pi, T, "hv")
}

// havocRegion forgets arr<et>[ref, off..off+n) and keeps everything else.
func (e *Engine) havocRegion(st *State, et types.Type, ref, off, n *Term) {
	pi := &PtrInfo{Ref: ref, Root: arrRoot(et), Path: []Step{{Idx: BVConst(0, 64)}}, Elem: et}
	st.walk(pi, et, func(key string, idx []*Term, s *Sort) {
		ni := len(idx) // 2 for plain element cells, more for cells inside array-typed fields of the element
		w := 64 * ni
		old := st.cellArr(key, ni, s)
		nw := FreshVar("Hr|"+key, old.S)
		j := Bound("j", BV(w))
		jr := Extract(w-1, w-64, j)
		ji := Extract(w-65, w-128, j)
		inR := And(Eq(jr, ref), Ule(off, ji), Ult(Sub(ji, off), n))
		st.assume(Forall([]*Term{j}, Or(inR, Eq(Select(nw, j), Select(old, j)))))
		st.mem[key] = nw
		st.written[key] = true
	})
}

// checkAssigns: a write to location pi (type T) must be allowed by the assigns clauses of the function under
// verification, unless the object was allocated after entry.
func (e *Engine) checkAssigns(st *State, pi *PtrInfo, T types.Type, in ssa.Instruction) {
	vc := e.cur
	if vc.c == nil || vc.discover || vc.collect != nil {
		return
	}
	cls := vc.c.clauses("assigns")
	if len(cls) == 0 {
		return
	}
	if isFreshRef(pi.Ref) && pi.Ref.Val > vc.entry.nextRef {
		return
	}
	if strings.HasPrefix(pi.Root, "ghost$") {
		// ghost locations are checked like real ones
	}
	type leaf struct {
		key string
		idx []*Term
	}
	var allowed []leaf
	type region struct {
		keyPrefix     string
		ref, off, len *Term
	}
	var regions []region
	top := vc.entry
	env := st.env
	pctx := &evalCtx{e: e, st: top, env: env, pkg: vc.fn.Package().Pkg}
	for _, cl := range cls {
		for _, ex := range cl.Exprs {
			if call, ok := ex.(*ECall); ok {
				if id, ok := call.Fun.(*EIdent); ok && (id.Name == "wstream" || id.Name == "rstream" || id.Name == "bstream") {
					continue
				}
				if id, ok := call.Fun.(*EIdent); ok && id.Name == "elems" {
					s := e.eval(pctx, call.Args[0])
					et := s.T.Underlying().(*types.Slice).Elem()
					regions = append(regions, region{arrRoot(et) + "|", s.sRef(), s.sOff(), s.sLen()})
					continue
				}
				if id, ok := call.Fun.(*EIdent); ok && id.Name == "mapof" {
					m := e.eval(pctx, call.Args[0])
					regions = append(regions, region{mapRoot(m.T) + "|", m.t(), nil, nil})
					continue
				}
			}
			api, aT := e.evalAddr(pctx, ex)
			top.walk(api, aT, func(key string, idx []*Term, s *Sort) {
				allowed = append(allowed, leaf{key, idx})
			})
		}
	}
	var goals []*Term
	st.walk(pi, T, func(key string, idx []*Term, s *Sort) {
		var alts []*Term
		for _, a := range allowed {
			if a.key == key && len(a.idx) == len(idx) {
				var eqs []*Term
				for i := range idx {
					eqs = append(eqs, Eq(idx[i], a.idx[i]))
				}
				alts = append(alts, And(eqs...))
			}
		}
		for _, r := range regions {
			if strings.HasPrefix(key, r.keyPrefix) {
				if r.off == nil {
					alts = append(alts, Eq(idx[0], r.ref))
				} else if len(idx) >= 2 {
					alts = append(alts, And(Eq(idx[0], r.ref), Ule(r.off, idx[1]), Ult(Sub(idx[1], r.off), r.len)))
				}
			}
		}
		// objects allocated after entry
		alts = append(alts, Ult(BVConst(vc.entry.nextRef, 64), idx[0]))
		goals = append(goals, Or(alts...))
	})
	e.oblige(st, "assigns", e.siteName("assigns", in), And(goals...), in.Pos(), nil, "write within the assigns frame")
}

func (e *Engine) checkAssignsRange(st *State, d Val, in ssa.Instruction) {
	// conservative: treat as a write to element 0 .. handled through elems() regions; check the first element location
	vc := e.cur
	if vc.c == nil || vc.discover || vc.collect != nil || len(vc.c.clauses("assigns")) == 0 {
		return
	}
	if isFreshRef(d.sRef()) && d.sRef().Val > vc.entry.nextRef {
		return
	}
	et := d.T.Underlying().(*types.Slice).Elem()
	j := FreshVar("anyidx", Ref64)
	st.assume(Ult(j, d.sLen()))
	e.checkAssigns(st, e.elemPI(d, j), et, in)
}

// ---------- pure evaluation of Go functions inside contracts ----------

func (e *Engine) evalPureCall(c *evalCtx, fn *ssa.Function, args []Val) Val {
	// memoise per (function, argument terms, memory contents)
	var kb strings.Builder
	fmt.Fprintf(&kb, "%p/%d/%d", fn, c.st.memStamp(), len(c.st.pc))
	for _, a := range args {
		for _, l := range a.L {
			fmt.Fprintf(&kb, ",%d", l.id)
		}
	}
	key := kb.String()
	if v, ok := e.pureCache[key]; ok {
		return v
	}
	v := e.evalPureCall0(c, fn, args)
	if e.pureCache == nil {
		e.pureCache = map[string]Val{}
	}
	e.pureCache[key] = v
	return v
}

func (e *Engine) evalPureCall0(c *evalCtx, fn *ssa.Function, args []Val) Val {
	if m := lookupModel(fn); m != nil {
		st := c.st.cloneLight()
		res, ok := m(e, st, nil, fn, args, nil)
		if ok {
			return res
		}
	}
	if fn.Blocks == nil {
		panic(fmt.Errorf("cannot evaluate %s in a contract (no body)", fn.String()))
	}
	type outc struct {
		cond *Term
		val  Val
	}
	var outs []outc
	sub := c.st.cloneLight()
	base := len(sub.pc)
	nf := e.newTopFrame(fn)
	for i, p := range fn.Params {
		a := args[i]
		a.T = p.Type()
		nf.regs[p] = a
	}
	sub.stack = []*Frame{nf}
	saveCur, saveWork := e.cur, e.work
	vc := &verifCtx{fn: fn, c: nil, discover: true, inputs: map[string]Val{}}
	vc.collect = func(st *State, res Val) {
		outs = append(outs, outc{And(st.pc[base:]...), res})
	}
	vc.entry = sub.snapshot()
	e.cur = vc
	e.work = []*State{sub}
	e.runPaths()
	reach := vc.reach
	e.cur, e.work = saveCur, saveWork
	if reach != "" {
		panic(fmt.Errorf("pure call %s: %s", shortFn(fn), reach))
	}
	if len(outs) == 0 {
		panic(fmt.Errorf("pure call %s: no return", shortFn(fn)))
	}
	// Facts collected along the evaluated paths (branch conditions, postconditions of contracted callees that define
	// their fresh results): one of the outcomes happens (the function is total), so their disjunction may be assumed.
	// Without it the fresh results of nested contract calls would be unconstrained.
	{
		var conds []*Term
		bound := false
		for _, o := range outs {
			if o.cond.hasBound {
				bound = true
			}
			conds = append(conds, o.cond)
		}
		if !bound && c.qdepth == 0 {
			target := c.sink
			if target == nil {
				target = c.st
			}
			if d := Or(conds...); !d.IsTrue() {
				target.assume(d)
			}
		}
	}
	v := outs[len(outs)-1].val
	for i := len(outs) - 2; i >= 0; i-- {
		o := outs[i]
		L := make([]*Term, len(v.L))
		for j := range v.L {
			L[j] = Ite(o.cond, o.val.L[j], v.L[j])
		}
		v = Val{v.T, L}
	}
	return v
}

func (st *State) cloneLight() *State {
	n := st.snapshot()
	n.entry = st.entry
	n.isPure = true
	n.nextRef = st.nextRef + 1<<20 // allocations inside pure calls must not collide with the caller's
	return n
}

func (e *Engine) evalPureInvoke(c *evalCtx, recv Val, m *types.Func, args []Val) Val {
	tag := recv.iTag()
	callOn := func(T types.Type) Val {
		fn := e.prog.LookupMethod(T, m.Pkg(), m.Name())
		if fn == nil {
			panic(fmt.Errorf("method %s not found on %s", m.Name(), typeName(T)))
		}
		rv := e.unbox(c.st, recv, T)
		return e.evalPureCall(c, fn, append([]Val{rv}, args...))
	}
	sig := m.Type().(*types.Signature)
	if tag.Op == OConst && typeOfTag[tag.Val] != nil {
		return callOn(typeOfTag[tag.Val])
	}
	if ci := e.closedImpls(recv.T); ci != nil {
		var v Val
		first := true
		for i := len(ci) - 1; i >= 0; i-- {
			r := callOn(ci[i])
			if first {
				v = r
				first = false
				continue
			}
			L := make([]*Term, len(v.L))
			for j := range v.L {
				L[j] = Ite(Eq(tag, typeTag(ci[i])), r.L[j], v.L[j])
			}
			v = Val{v.T, L}
		}
		return v
	}
	// open interface: uninterpreted functions of the dynamic value (one per result leaf)
	if sig.Results().Len() == 1 {
		rt := sig.Results().At(0).Type()
		ss := leafSorts(rt)
		ts := []*Term{tag, recv.iPl()}
		for _, a := range args {
			ts = append(ts, a.L...)
		}
		name := "dyn!" + typeName(recv.T) + "." + m.Name()
		L := make([]*Term, len(ss))
		for i, srt := range ss {
			n := name
			if len(ss) > 1 {
				n = fmt.Sprintf("%s#%d", name, i)
			}
			L[i] = App(n, srt, ts...)
		}
		return Val{rt, L}
	}
	panic(fmt.Errorf("cannot evaluate interface method %s.%s in a contract", typeName(recv.T), m.Name()))
}

// havocStream forgets a ghost stream's cursor; for writers also the tokens at and above the old write cursor
// (through fan-out tables).
func (e *Engine) havocStream(st *State, s *Term, writer bool) {
	if s == discardRef {
		return
	}
	if mw, ok := st.ghost["$mw/"+s.String()]; ok {
		for _, sink := range mw.L {
			e.havocStream(st, e.resolveAlias(st, sink), writer)
		}
		return
	}
	if tee, ok := st.ghost["$tee/"+s.String()]; ok {
		e.havocStream(st, e.resolveAlias(st, tee.L[0]), false)
		e.havocStream(st, e.resolveAlias(st, tee.L[1]), true)
		return
	}
	if !writer {
		nr := FreshVar("rpos", Ref64)
		st.assume(Ule(rposOf(st, s), nr))
		st.storeLeaf("tokpos|r", []*Term{s}, nr)
		return
	}
	w0 := wposOf(st, s)
	for _, c := range []struct {
		key string
		s   *Sort
	}{{"tok|kind", BV(8)}, {"tok|m", BV(8)}, {"tok|n", Ref64}, {"tok|cid", Ref64}, {"tok|aux", Ref64}} {
		old := st.cellArr(c.key, 2, c.s)
		nw := FreshVar("Hs|"+c.key, old.S)
		j := Bound("j", BV(128))
		jr, ji := Extract(127, 64, j), Extract(63, 0, j)
		inR := And(Eq(jr, s), Ule(w0, ji))
		st.assume(Forall([]*Term{j}, Or(inR, Eq(Select(nw, j), Select(old, j)))))
		st.mem[c.key] = nw
	}
	nwp := FreshVar("wpos", Ref64)
	st.assume(Ule(w0, nwp))
	st.storeLeaf("tokpos|w", []*Term{s}, nwp)
}

func isRegionCall(c *ECall) bool {
	if id, ok := c.Fun.(*EIdent); ok {
		switch id.Name {
		case "wstream", "rstream", "elems", "mapof", "bstream":
			return true
		}
	}
	return false
}
