package main

// Contract files: block parser and expression parser for the //@ language.

import (
	"fmt"
	"os"
	"path/filepath"
	"strconv"
	"strings"
	"unicode"
)

type Clause struct {
	Thorough bool   // only attempted in the thorough tier
	NoCase   bool   // only in the unconditional run
	Kind     string // requires, ensures, assigns, invariant, decreases, unroll, ghost, ...
	Text     string
	Expr     Expr
	Props    []string // property tags (nil = inherit from block)
	Line     int
	File     string
	Case     string // behaviour name ("" = unconditional)
	Loop     int    // loop ordinal for loop clauses
	LoopFn   string // for loops of inlined callees: the callee's short name ("" = the function itself)
	Ord      int    // ordinal among clauses of the same kind
	Exprs    []Expr // for assigns (list of locations)
	Name     string // for ghost / let / at-call binders / lemma names
}

type Contract struct {
	Pkg      string // package path
	Func     string // relative name: (*T).M, T.M, F, F$1
	Kind     string // func | trusted | spec | lemma | iface
	Props    []string
	Clauses  []*Clause
	File     string
	Line     int
	Params   []SpecParam // for spec functions
	RetType  string
	Body     Expr // for spec functions
	AllocCap uint64
	Opts     map[string]string
}

type SpecParam struct {
	Name string
	Type string
}

func (c *Contract) clauses(kind string) []*Clause {
	var out []*Clause
	for _, cl := range c.Clauses {
		if cl.Kind == kind {
			out = append(out, cl)
		}
	}
	return out
}
func (c *Contract) loopClauses(kind string, loop int) []*Clause {
	return c.loopClausesFn(kind, loop, "")
}

func (c *Contract) loopClausesFn(kind string, loop int, fn string) []*Clause {
	var out []*Clause
	for _, cl := range c.Clauses {
		if cl.Kind == kind && cl.Loop == loop && cl.LoopFn == fn {
			out = append(out, cl)
		}
	}
	return out
}

type ContractSet struct {
	ByFunc map[string]*Contract // key pkgpath + "::" + relname
	Specs  map[string]*Contract // spec functions by name (global namespace, optionally pkg-qualified)
	Closed map[string][]string  // interface type name -> implementor type names
	Files  []string
	All    []*Contract
}

func newContractSet() *ContractSet {
	return &ContractSet{ByFunc: map[string]*Contract{}, Specs: map[string]*Contract{}, Closed: map[string][]string{}}
}

// loadContractFile parses one contract file. defaultPkg is the package path contracts refer to
// unless a "govc:package <path>" line overrides it.
func (cs *ContractSet) loadContractFile(path string, defaultPkg string) error {
	data, err := os.ReadFile(path)
	if err != nil {
		return err
	}
	cs.Files = append(cs.Files, path)
	pkg := defaultPkg
	var cur *Contract
	curCase := ""
	counts := map[string]int{}
	lines := strings.Split(string(data), "\n")
	for ln, raw := range lines {
		line := strings.TrimSpace(raw)
		if !strings.HasPrefix(line, "//") {
			if line == "" {
				// blank line ends a block
				cur = nil
				curCase = ""
			}
			continue
		}
		body := strings.TrimSpace(strings.TrimPrefix(line, "//"))
		if strings.HasPrefix(body, "govc:package ") {
			pkg = strings.TrimSpace(strings.TrimPrefix(body, "govc:package "))
			continue
		}
		if strings.HasPrefix(body, "govc:closed ") {
			// govc:closed EndpointType = DtnEndpoint | IpnEndpoint
			rest := strings.TrimPrefix(body, "govc:closed ")
			parts := strings.SplitN(rest, "=", 2)
			if len(parts) != 2 {
				return fmt.Errorf("%s:%d: bad closed", path, ln+1)
			}
			var impls []string
			for _, p := range strings.Split(parts[1], "|") {
				impls = append(impls, strings.TrimSpace(p))
			}
			cs.Closed[pkg+"::"+strings.TrimSpace(parts[0])] = impls
			continue
		}
		if strings.HasPrefix(body, "govc:ghostfield ") {
			continue
		}
		if strings.HasPrefix(body, "govc:") {
			// govc:func NAME  property C01 C02
			fields := strings.Fields(body)
			kind := strings.TrimPrefix(fields[0], "govc:")
			rest := strings.TrimSpace(strings.TrimPrefix(body, fields[0]))
			var props []string
			if i := strings.Index(rest, " property "); i >= 0 {
				props = strings.Fields(rest[i+len(" property "):])
				rest = strings.TrimSpace(rest[:i])
			}
			cur = &Contract{Pkg: pkg, Kind: kind, Props: props, File: path, Line: ln + 1, Opts: map[string]string{}}
			curCase = ""
			counts = map[string]int{}
			switch kind {
			case "func", "trusted", "iface":
				if kind != "iface" && !strings.HasPrefix(rest, "(") && strings.Count(rest, ".") == 1 && !strings.Contains(rest, "$") {
					// T.M (value receiver) is spelled (T).M by go/ssa
					i := strings.Index(rest, ".")
					rest = "(" + rest[:i] + ")" + rest[i:]
				}
				cur.Func = rest
				// A function may have a "trusted" block (what its callers assume, e.g. ghost bookkeeping) next to a
				// "func" block (what is proved about its body): call sites use the trusted one.
				if prev := cs.ByFunc[pkg+"::"+rest]; prev != nil && prev.Kind == "trusted" && kind == "func" {
					// keep prev for call sites
				} else {
					cs.ByFunc[pkg+"::"+rest] = cur
				}
			case "spec":
				// spec name(a T, b U) R = expr   (expr may continue on //@ lines)
				if err := parseSpecHeader(cur, rest); err != nil {
					return fmt.Errorf("%s:%d: %v", path, ln+1, err)
				}
				cs.Specs[cur.Func] = cur
			case "lemma":
				cur.Func = rest
				cs.ByFunc[pkg+"::lemma:"+rest] = cur
			default:
				return fmt.Errorf("%s:%d: unknown block kind %q", path, ln+1, kind)
			}
			cs.All = append(cs.All, cur)
			continue
		}
		if !strings.HasPrefix(body, "@") {
			continue
		}
		if cur == nil {
			return fmt.Errorf("%s:%d: clause outside block", path, ln+1)
		}
		text := strings.TrimSpace(strings.TrimPrefix(body, "@"))
		// strip trailing comment
		if i := strings.Index(text, " //"); i >= 0 {
			text = strings.TrimSpace(text[:i])
		}
		if text == "" {
			continue
		}
		fields := strings.Fields(text)
		kw := fields[0]
		rest := strings.TrimSpace(strings.TrimPrefix(text, kw))
		cl := &Clause{Kind: kw, Text: rest, Line: ln + 1, File: path, Case: curCase, Loop: -1}
		// tier tag: "... @thorough" marks clauses only attempted in the thorough tier
		if strings.HasSuffix(cl.Text, " @thorough") {
			cl.Thorough = true
			cl.Text = strings.TrimSpace(strings.TrimSuffix(cl.Text, " @thorough"))
		}
		// "... @nocase": the clause (a loop invariant) applies only to the unconditional run, not to the behaviours,
		// where preconditions make the trip count concrete and the loop unrolls
		if strings.HasSuffix(cl.Text, " @nocase") {
			cl.NoCase = true
			cl.Text = strings.TrimSpace(strings.TrimSuffix(cl.Text, " @nocase"))
		}
		// per-clause property tag: "... @C06" at the end
		for {
			i := strings.LastIndex(cl.Text, " @C")
			if i < 0 {
				break
			}
			tag := strings.TrimSpace(cl.Text[i+2:])
			if len(tag) < 3 || strings.ContainsAny(tag, " \t") {
				break
			}
			cl.Props = append(cl.Props, tag)
			cl.Text = strings.TrimSpace(cl.Text[:i])
		}
		switch kw {
		case "case":
			curCase = strings.TrimSuffix(rest, ":")
			continue
		case "endcase":
			curCase = ""
			continue
		case "loop":
			// loop K invariant|decreases|unroll|assigns ...
			f := strings.Fields(cl.Text)
			if len(f) < 2 {
				return fmt.Errorf("%s:%d: bad loop clause", path, ln+1)
			}
			ordS := f[0]
			if i := strings.LastIndex(ordS, "."); i >= 0 {
				cl.LoopFn = ordS[:i]
				ordS = ordS[i+1:]
			}
			k, err := strconv.Atoi(ordS)
			if err != nil {
				return fmt.Errorf("%s:%d: bad loop ordinal", path, ln+1)
			}
			cl.Loop = k
			cl.Kind = "loop-" + f[1]
			cl.Text = strings.TrimSpace(strings.TrimPrefix(strings.TrimSpace(strings.TrimPrefix(cl.Text, f[0])), f[1]))
		case "alloccap":
			v, err := strconv.ParseUint(rest, 0, 64)
			if err != nil {
				return fmt.Errorf("%s:%d: bad alloccap", path, ln+1)
			}
			cur.AllocCap = v
			continue
		case "opt":
			// opt key value
			if len(fields) >= 2 {
				cur.Opts[fields[1]] = strings.TrimSpace(strings.TrimPrefix(rest, fields[1]))
			}
			continue
		case "cont":
			// continuation of previous clause / spec body
			if cur.Kind == "spec" && len(cur.Clauses) == 0 {
				cur.Opts["body"] += " " + rest
				continue
			}
			if len(cur.Clauses) == 0 {
				return fmt.Errorf("%s:%d: cont without clause", path, ln+1)
			}
			last := cur.Clauses[len(cur.Clauses)-1]
			last.Text += " " + rest
			continue
		}
		key := cl.Kind + "/" + cl.Case + "/" + cl.LoopFn + "." + strconv.Itoa(cl.Loop)
		cl.Ord = counts[key]
		counts[key]++
		cur.Clauses = append(cur.Clauses, cl)
	}
	return nil
}

func (cs *ContractSet) finish() error {
	for _, c := range cs.All {
		if c.Kind == "spec" {
			e, err := parseExpr(c.Opts["body"])
			if err != nil {
				return fmt.Errorf("%s:%d: spec %s: %v", c.File, c.Line, c.Func, err)
			}
			c.Body = e
		}
		for _, cl := range c.Clauses {
			switch cl.Kind {
			case "requires", "ensures", "atreturn", "loop-invariant", "loop-decreases", "decreases", "assert", "assume", "canary", "invariant", "cover":
				e, err := parseExpr(cl.Text)
				if err != nil {
					return fmt.Errorf("%s:%d: %v in %q", cl.File, cl.Line, err, cl.Text)
				}
				cl.Expr = e
			case "assigns", "loop-assigns", "preserves":
				if strings.TrimSpace(cl.Text) == "nothing" {
					continue
				}
				for _, part := range splitTop(cl.Text, ',') {
					e, err := parseExpr(part)
					if err != nil {
						return fmt.Errorf("%s:%d: %v in %q", cl.File, cl.Line, err, part)
					}
					cl.Exprs = append(cl.Exprs, e)
				}
			case "ghost", "let", "bind":
				// NAME := expr   |  NAME TYPE
				if i := strings.Index(cl.Text, ":="); i >= 0 {
					cl.Name = strings.TrimSpace(cl.Text[:i])
					e, err := parseExpr(cl.Text[i+2:])
					if err != nil {
						return fmt.Errorf("%s:%d: %v in %q", cl.File, cl.Line, err, cl.Text)
					}
					cl.Expr = e
				} else {
					f := strings.Fields(cl.Text)
					if len(f) != 2 {
						return fmt.Errorf("%s:%d: bad ghost decl %q", cl.File, cl.Line, cl.Text)
					}
					cl.Name = f[0]
					cl.Text = f[1]
				}
			case "atcall", "chaninv":
				// atcall NAME: expr / chaninv NAME: expr
				i := strings.Index(cl.Text, ":")
				if i < 0 {
					return fmt.Errorf("%s:%d: atcall needs NAME: expr", cl.File, cl.Line)
				}
				cl.Name = strings.TrimSpace(cl.Text[:i])
				e, err := parseExpr(cl.Text[i+1:])
				if err != nil {
					return fmt.Errorf("%s:%d: %v in %q", cl.File, cl.Line, err, cl.Text)
				}
				cl.Expr = e
			case "loop-unroll":
			default:
			}
		}
	}
	return nil
}

func splitTop(s string, sep byte) []string {
	var out []string
	depth := 0
	last := 0
	for i := 0; i < len(s); i++ {
		switch s[i] {
		case '(', '[':
			depth++
		case ')', ']':
			depth--
		default:
			if s[i] == sep && depth == 0 {
				out = append(out, strings.TrimSpace(s[last:i]))
				last = i + 1
			}
		}
	}
	out = append(out, strings.TrimSpace(s[last:]))
	return out
}

func parseSpecHeader(c *Contract, s string) error {
	// name(a T, b U) R = body
	i := strings.Index(s, "(")
	if i < 0 {
		return fmt.Errorf("bad spec header")
	}
	c.Func = strings.TrimSpace(s[:i])
	depth := 0
	j := i
	for ; j < len(s); j++ {
		if s[j] == '(' {
			depth++
		} else if s[j] == ')' {
			depth--
			if depth == 0 {
				break
			}
		}
	}
	if j >= len(s) {
		return fmt.Errorf("bad spec header parens")
	}
	ps := strings.TrimSpace(s[i+1 : j])
	if ps != "" {
		for _, p := range splitTop(ps, ',') {
			f := strings.Fields(p)
			if len(f) != 2 {
				return fmt.Errorf("bad spec param %q", p)
			}
			c.Params = append(c.Params, SpecParam{f[0], f[1]})
		}
	}
	rest := strings.TrimSpace(s[j+1:])
	k := strings.Index(rest, "=")
	if k < 0 {
		return fmt.Errorf("spec needs '='")
	}
	c.RetType = strings.TrimSpace(rest[:k])
	c.Opts["body"] = strings.TrimSpace(rest[k+1:])
	return nil
}

// findContractFiles returns verif_contracts*.go files of a package directory.
func findContractFiles(dir string) []string {
	m, _ := filepath.Glob(filepath.Join(dir, "verif_contracts*.go"))
	return m
}

// ---------- expression AST ----------

type Expr interface{}

type EIdent struct{ Name string }
type EInt struct{ V uint64 }
type EFloat struct{ S string }
type EStr struct{ S string }
type EUnary struct {
	Op string
	X  Expr
}
type EBinary struct {
	Op   string
	X, Y Expr
}
type ESel struct {
	X    Expr
	Name string
}
type EIndex struct{ X, I Expr }
type ESlice struct{ X, Lo, Hi Expr }
type ECall struct {
	Fun  Expr
	Args []Expr
}
type EQuant struct {
	Forall bool
	Vars   []SpecParam
	Body   Expr
}
type EType struct{ T string } // type expression used as argument: *T, []T, pkg.T
type ETypeAssert struct {
	X Expr
	T string
}
type ECond struct{ C, A, B Expr }

// ---------- lexer ----------

type tok struct {
	k string // ident int float str op eof
	s string
}

func lex(s string) ([]tok, error) {
	var out []tok
	i := 0
	for i < len(s) {
		c := s[i]
		switch {
		case c == ' ' || c == '\t':
			i++
		case unicode.IsLetter(rune(c)) || c == '_' || c == '$':
			j := i + 1
			for j < len(s) && (unicode.IsLetter(rune(s[j])) || unicode.IsDigit(rune(s[j])) || s[j] == '_' || s[j] == '$') {
				j++
			}
			out = append(out, tok{"ident", s[i:j]})
			i = j
		case c >= '0' && c <= '9':
			j := i + 1
			isFloat := false
			for j < len(s) && (s[j] >= '0' && s[j] <= '9' || s[j] == 'x' || s[j] == 'X' || s[j] >= 'a' && s[j] <= 'f' || s[j] >= 'A' && s[j] <= 'F' || s[j] == '_' || s[j] == '.') {
				if s[j] == '.' {
					if j+1 < len(s) && s[j+1] == '.' {
						break
					}
					isFloat = true
				}
				j++
			}
			if isFloat {
				out = append(out, tok{"float", s[i:j]})
			} else {
				out = append(out, tok{"int", s[i:j]})
			}
			i = j
		case c == '"':
			j := i + 1
			for j < len(s) && s[j] != '"' {
				if s[j] == '\\' {
					j++
				}
				j++
			}
			if j >= len(s) {
				return nil, fmt.Errorf("unterminated string")
			}
			v, err := strconv.Unquote(s[i : j+1])
			if err != nil {
				return nil, err
			}
			out = append(out, tok{"str", v})
			i = j + 1
		default:
			ops := []string{"<==>", "==>", "::", "&&", "||", "==", "!=", "<=", ">=", "<<", ">>", "&^", ":=",
				"+", "-", "*", "/", "%", "&", "|", "^", "<", ">", "!", "(", ")", "[", "]", ".", ",", ":", "?", "{", "}"}
			found := false
			for _, o := range ops {
				if strings.HasPrefix(s[i:], o) {
					out = append(out, tok{"op", o})
					i += len(o)
					found = true
					break
				}
			}
			if !found {
				return nil, fmt.Errorf("bad character %q", c)
			}
		}
	}
	out = append(out, tok{"eof", ""})
	return out, nil
}

type parser struct {
	toks []tok
	p    int
}

func parseExpr(s string) (e Expr, err error) {
	toks, err := lex(strings.TrimSpace(s))
	if err != nil {
		return nil, err
	}
	p := &parser{toks: toks}
	defer func() {
		if r := recover(); r != nil {
			if pe, ok := r.(parseErr); ok {
				err = fmt.Errorf("%s", string(pe))
				return
			}
			panic(r)
		}
	}()
	e = p.expr(0)
	if p.peek().k != "eof" {
		return nil, fmt.Errorf("unexpected %q", p.peek().s)
	}
	return e, nil
}

type parseErr string

func (p *parser) peek() tok { return p.toks[p.p] }
func (p *parser) next() tok { t := p.toks[p.p]; p.p++; return t }
func (p *parser) isOp(s string) bool {
	t := p.peek()
	return t.k == "op" && t.s == s
}
func (p *parser) expect(s string) {
	if !p.isOp(s) {
		panic(parseErr(fmt.Sprintf("expected %q, got %q", s, p.peek().s)))
	}
	p.p++
}

var binPrec = map[string]int{
	"<==>": 1, "==>": 2, "?": 3, "||": 4, "&&": 5,
	"==": 6, "!=": 6, "<": 6, "<=": 6, ">": 6, ">=": 6,
	"+": 7, "-": 7, "|": 7, "^": 7,
	"*": 8, "/": 8, "%": 8, "<<": 8, ">>": 8, "&": 8, "&^": 8,
}

func isCmp(op string) bool {
	switch op {
	case "<", "<=", ">", ">=":
		return true
	}
	return false
}

func (p *parser) expr(minPrec int) Expr {
	lhs := p.unary()
	for {
		t := p.peek()
		if t.k != "op" {
			return lhs
		}
		prec, ok := binPrec[t.s]
		if !ok || prec < minPrec {
			return lhs
		}
		p.next()
		if t.s == "?" {
			a := p.expr(0)
			p.expect(":")
			b := p.expr(prec)
			lhs = &ECond{lhs, a, b}
			continue
		}
		var rhs Expr
		if t.s == "==>" || t.s == "<==>" {
			rhs = p.expr(prec) // right assoc
		} else {
			rhs = p.expr(prec + 1)
		}
		// chained comparisons: a <= i < b
		if isCmp(t.s) {
			if lb, ok := lhs.(*EBinary); ok && isCmp(lb.Op) && !lb.paren() {
				lhs = &EBinary{"&&", lhs, &EBinary{t.s, lb.Y, rhs}}
				continue
			}
		}
		lhs = &EBinary{t.s, lhs, rhs}
	}
}

func (b *EBinary) paren() bool { return false }

func (p *parser) unary() Expr {
	t := p.peek()
	if t.k == "op" {
		switch t.s {
		case "!", "-", "^":
			p.next()
			return &EUnary{t.s, p.unary()}
		case "*":
			// pointer type expression or deref
			p.next()
			x := p.unary()
			if id, ok := x.(*EIdent); ok {
				return &EType{"*" + id.Name}
			}
			if sel, ok := x.(*ESel); ok {
				if id, ok := sel.X.(*EIdent); ok {
					return &EType{"*" + id.Name + "." + sel.Name}
				}
			}
			if ty, ok := x.(*EType); ok {
				return &EType{"*" + ty.T}
			}
			return &EUnary{"*", x}
		case "&":
			p.next()
			return &EUnary{"&", p.unary()}
		}
	}
	return p.postfix(p.primary())
}

func (p *parser) primary() Expr {
	t := p.next()
	switch t.k {
	case "int":
		v, err := strconv.ParseUint(strings.ReplaceAll(t.s, "_", ""), 0, 64)
		if err != nil {
			panic(parseErr("bad int " + t.s))
		}
		return &EInt{v}
	case "float":
		return &EFloat{t.s}
	case "str":
		return &EStr{t.s}
	case "ident":
		if t.s == "forall" || t.s == "exists" {
			var vars []SpecParam
			for {
				var names []string
				names = append(names, p.next().s)
				for p.isOp(",") {
					p.next()
					names = append(names, p.next().s)
				}
				ty := p.typeExpr()
				for _, n := range names {
					vars = append(vars, SpecParam{n, ty})
				}
				if p.isOp("::") {
					break
				}
				if p.isOp(",") {
					p.next()
					continue
				}
				panic(parseErr("expected :: in quantifier"))
			}
			p.expect("::")
			body := p.expr(0)
			return &EQuant{t.s == "forall", vars, body}
		}
		return &EIdent{t.s}
	case "op":
		switch t.s {
		case "(":
			e := p.expr(0)
			p.expect(")")
			if b, ok := e.(*EBinary); ok && isCmp(b.Op) {
				// mark parenthesised comparison so it does not chain: wrap in a unary +
				return &EUnary{"()", e}
			}
			return e
		case "[":
			// slice type expression []T
			p.expect("]")
			return &EType{"[]" + p.typeExpr()}
		}
	}
	panic(parseErr(fmt.Sprintf("unexpected token %q", t.s)))
}

func (p *parser) typeExpr() string {
	t := p.next()
	if t.k == "op" && t.s == "*" {
		return "*" + p.typeExpr()
	}
	if t.k == "op" && t.s == "[" {
		p.expect("]")
		return "[]" + p.typeExpr()
	}
	if t.k != "ident" {
		panic(parseErr("type expected, got " + t.s))
	}
	name := t.s
	if p.isOp(".") {
		p.next()
		name += "." + p.next().s
	}
	return name
}

func (p *parser) postfix(x Expr) Expr {
	for {
		t := p.peek()
		if t.k != "op" {
			return x
		}
		switch t.s {
		case ".":
			p.next()
			if p.isOp("(") {
				p.next()
				ty := p.typeExpr()
				p.expect(")")
				x = &ETypeAssert{x, ty}
				continue
			}
			n := p.next()
			if n.k != "ident" {
				panic(parseErr("field name expected"))
			}
			x = &ESel{x, n.s}
		case "[":
			p.next()
			if p.isOp(":") {
				p.next()
				var hi Expr
				if !p.isOp("]") {
					hi = p.expr(0)
				}
				p.expect("]")
				x = &ESlice{x, nil, hi}
				continue
			}
			i := p.expr(0)
			if p.isOp(":") {
				p.next()
				var hi Expr
				if !p.isOp("]") {
					hi = p.expr(0)
				}
				p.expect("]")
				x = &ESlice{x, i, hi}
				continue
			}
			p.expect("]")
			x = &EIndex{x, i}
		case "(":
			p.next()
			var args []Expr
			for !p.isOp(")") {
				args = append(args, p.expr(0))
				if p.isOp(",") {
					p.next()
				}
			}
			p.expect(")")
			x = &ECall{x, args}
		default:
			return x
		}
	}
}
