package main

// Forward symbolic execution of go/ssa, path by path, generating obligations.

import (
	"go/ast"
	"fmt"
	"go/constant"
	"go/token"
	"go/types"
	"math/big"
	"os"
	"runtime"
	"runtime/debug"
	"sort"
	"strings"

	"golang.org/x/tools/go/ssa"
)

type Obligation struct {
	Name    string
	Func    string
	Kind    string
	Pos     string
	PC      []*Term
	Goal    *Term
	Props   []string
	Clause  string
	Trivial bool
	Trace   string
	Notes   []string
	// results
	Status  string // unsat | sat | unknown | timeout | trivial
	Solver  string
	Time    float64
	Model   map[string]string
	Query   string
	Inputs  map[string]Val // named input values for replay
	replay  *replayInfo
	cands   *candSet
	batched bool
	inVals  []uint64
	inOk    []bool
	clause  *Clause
}

type loopInfo struct {
	header *ssa.BasicBlock
	ord    int
	body   map[*ssa.BasicBlock]bool
}

type verifCtx struct {
	fn       *ssa.Function
	c        *Contract
	loops    map[*ssa.BasicBlock]*loopInfo
	entry    *State
	params   map[string]Val
	paths    int
	siteOrd  map[string]map[ssa.Instruction]int
	reach    string // non-empty: function fell out of reach, with reason
	discover bool
	results  int // number of normal returns reached
	inputs   map[string]Val
	caseName string
	collect  func(st *State, res Val)
	replay   *replayInfo
}

type Engine struct {
	rename     map[string]string // old local name -> current name for the function under verification (shape.go)
	prog       *ssa.Program
	fset       *token.FileSet
	pkgs       map[string]*ssa.Package
	cs         *ContractSet
	obls       []*Obligation
	cur        *verifCtx
	work       []*State
	maxPaths   int
	maxSteps   int
	maxInline  int
	verbose    bool
	loopCache  map[*ssa.Function]map[*ssa.BasicBlock]*loopInfo
	inlineBan  map[string]bool
	propFilter string
	stats      map[string]int
	curClause  *Clause
	discSorts  map[string]*Sort
	discExtra  map[string]bool
	pureCache  map[string]Val
	discRefs   map[string]map[*Term]bool
}

type pathEnd struct{ reason string }

func (e *Engine) fnKey(fn *ssa.Function) string {
	if fn.Pkg == nil {
		if fn.Package() != nil {
			return fn.Package().Pkg.Path() + "::" + fn.RelString(fn.Package().Pkg)
		}
		// methods of instantiated/wrapper functions etc.
		if recv := fn.Signature.Recv(); recv != nil {
			if n := namedOf(recv.Type()); n != nil && n.Obj().Pkg() != nil {
				return n.Obj().Pkg().Path() + "::" + fn.RelString(n.Obj().Pkg())
			}
		}
		return "::" + fn.String()
	}
	return fn.Pkg.Pkg.Path() + "::" + fn.RelString(fn.Pkg.Pkg)
}

func namedOf(T types.Type) *types.Named {
	if p, ok := T.(*types.Pointer); ok {
		T = p.Elem()
	}
	n, _ := T.(*types.Named)
	return n
}

func (e *Engine) contractFor(fn *ssa.Function) *Contract {
	return e.cs.ByFunc[e.fnKey(fn)]
}

// ---------- loops ----------

func (e *Engine) loopsOf(fn *ssa.Function) map[*ssa.BasicBlock]*loopInfo {
	if l, ok := e.loopCache[fn]; ok {
		return l
	}
	res := map[*ssa.BasicBlock]*loopInfo{}
	var headers []*ssa.BasicBlock
	for _, b := range fn.Blocks {
		for _, s := range b.Succs {
			if s.Dominates(b) {
				if _, ok := res[s]; !ok {
					res[s] = &loopInfo{header: s, body: map[*ssa.BasicBlock]bool{s: true}}
					headers = append(headers, s)
				}
				// natural loop body: nodes that reach b without passing through s
				li := res[s]
				stack := []*ssa.BasicBlock{b}
				for len(stack) > 0 {
					x := stack[len(stack)-1]
					stack = stack[:len(stack)-1]
					if li.body[x] {
						continue
					}
					li.body[x] = true
					for _, p := range x.Preds {
						stack = append(stack, p)
					}
				}
			}
		}
	}
	// ordinal by source position of the header's first positioned instruction, fallback block index
	sort.Slice(headers, func(i, j int) bool {
		pi, pj := blockPos(headers[i]), blockPos(headers[j])
		if pi != pj && pi.IsValid() && pj.IsValid() {
			return pi < pj
		}
		return headers[i].Index < headers[j].Index
	})
	for i, h := range headers {
		res[h].ord = i
	}
	e.loopCache[fn] = res
	return res
}

func blockPos(b *ssa.BasicBlock) token.Pos {
	for _, in := range b.Instrs {
		if _, ok := in.(*ssa.Phi); ok {
			continue
		}
		if _, ok := in.(*ssa.DebugRef); ok {
			continue
		}
		if in.Pos().IsValid() {
			return in.Pos()
		}
	}
	// fall back to any successor instr
	for _, in := range b.Instrs {
		if in.Pos().IsValid() {
			return in.Pos()
		}
	}
	return token.NoPos
}

// ---------- obligations ----------

func (e *Engine) siteName(kind string, in ssa.Instruction) string {
	vc := e.cur
	if vc.siteOrd == nil {
		vc.siteOrd = map[string]map[ssa.Instruction]int{}
	}
	fn := in.Parent()
	key := kind + "@" + fn.String()
	m := vc.siteOrd[key]
	if m == nil {
		m = map[ssa.Instruction]int{}
		vc.siteOrd[key] = m
		// deterministic numbering: ordinal among the instructions of the same SSA instruction type in the function
		// (the k-th slice expression, the k-th call, ...), so that unrelated edits do not renumber the sites
		cnt := map[string]int{}
		for _, b := range fn.Blocks {
			for _, i2 := range b.Instrs {
				t := fmt.Sprintf("%T", i2)
				m[i2] = cnt[t]
				cnt[t]++
			}
		}
	}
	prefix := ""
	if fn != vc.fn {
		prefix = "in:" + shortFn(fn) + "/"
	}
	return fmt.Sprintf("%s%s#%d", prefix, kind, m[in])
}

func shortFn(fn *ssa.Function) string {
	if fn.Pkg != nil {
		return fn.RelString(fn.Pkg.Pkg)
	}
	s := fn.String()
	if i := strings.LastIndex(s, "/"); i >= 0 {
		s = s[i+1:]
	}
	return s
}

func (e *Engine) oblige(st *State, kind, name string, goal *Term, pos token.Pos, props []string, clause string) {
	if e.cur.discover {
		st.assume(goal)
		return
	}
	if props == nil {
		props = e.cur.c.Props
	}
	if e.cur.c != nil && e.cur.c.Opts["safety"] == "assumed" {
		// "opt safety assumed": the zero-annotation safety obligations of this (large) function are not generated; its
		// contract is about call-site clauses only. Recorded as an assumption in the evidence.
		switch kind {
		case "index", "slice", "nilderef", "typeassert", "makelen", "alloccap", "divzero", "shiftneg", "nilmap", "chansend", "chanclose", "panic", "requires", "assigns":
			st.note("safety and callee-precondition obligations of " + shortFn(e.cur.fn) + " are assumed (opt safety assumed)")
			st.assume(goal)
			return
		}
	}
	o := &Obligation{
		Name: shortFn(e.cur.fn) + "/" + name, Func: e.fnKey(e.cur.fn), Kind: kind, Pos: posString(e.fset, pos),
		Goal: goal, Props: props, Clause: clause, Trace: strings.Join(st.trace, " "), Notes: append([]string(nil), st.notes...),
		Inputs: e.cur.inputs, replay: e.cur.replay, clause: e.curClause,
	}
	if e.cur.caseName != "" {
		o.Name = shortFn(e.cur.fn) + "/case:" + e.cur.caseName + "/" + name
	}
	if !goal.IsTrue() && !st.dead && st.knows(goal) {
		goal = True
	}
	if goal.IsTrue() || st.dead {
		o.Trivial = true
		o.Status = "trivial"
	} else {
		o.PC = append([]*Term(nil), st.pc...)
		if hasQuant(goal) || pcHasQuant(st) {
			o.cands = e.collectCands(st)
		}
	}
	if os.Getenv("GOVC_DEBUG") != "" && !o.Trivial {
		fmt.Printf("  oblige %s trace=%v goal=%s\n", o.Name, st.trace, goal)
	}
	e.obls = append(e.obls, o)
	switch kind {
	case "loop-inv-entry", "loop-inv-preserved", "loop-decreases", "ensures":
		// the path ends here (or the invariant is assumed afresh after the havoc): do not grow the path condition
	default:
		st.assume(goal)
	}
}

// ---------- values of SSA operands ----------

func (e *Engine) val(st *State, fr *Frame, v ssa.Value) Val {
	switch x := v.(type) {
	case *ssa.Const:
		return e.constVal(x)
	case *ssa.Function:
		t := FreshVar("fn", Ref64)
		if k, ok := fnConstTab[x]; ok {
			t = k
		} else {
			fnConstTab[x] = t
			funcTab[t] = &FuncInfo{Fn: x}
		}
		return Val{x.Type(), []*Term{t}}
	case *ssa.Global:
		pi := &PtrInfo{Ref: globalRef(x), Root: rootName(deref(x.Type())), Elem: deref(x.Type())}
		if at, ok := pi.Elem.Underlying().(*types.Array); ok {
			pi.Root = arrRoot(at.Elem())
		}
		return mkPtr(pi)
	case *ssa.Builtin:
		panic(unsupported("builtin as value " + x.Name()))
	}
	if r, ok := fr.regs[v]; ok {
		return r
	}
	if fv, ok := v.(*ssa.FreeVar); ok && fr.closure != nil {
		for i, f := range fr.fn.FreeVars {
			if f == fv {
				return fr.closure.Bind[i]
			}
		}
	}
	panic(unsupported(fmt.Sprintf("unbound SSA value %s (%T) in %s", v.Name(), v, fr.fn)))
}

var fnConstTab = map[*ssa.Function]*Term{}
var globalTab = map[*ssa.Global]*Term{}

func globalRef(g *ssa.Global) *Term {
	if t, ok := globalTab[g]; ok {
		return t
	}
	t := Var("ref!global!"+g.Pkg.Pkg.Name()+"."+g.Name(), Ref64)
	globalTab[g] = t
	return t
}

func deref(T types.Type) types.Type {
	if p, ok := T.Underlying().(*types.Pointer); ok {
		return p.Elem()
	}
	return T
}

func (e *Engine) constVal(c *ssa.Const) Val {
	T := c.Type()
	if c.Value == nil {
		return zeroVal(T)
	}
	switch u := T.Underlying().(type) {
	case *types.Basic:
		switch {
		case u.Info()&types.IsBoolean != 0:
			return Val{T, []*Term{BoolConst(constant.BoolVal(c.Value))}}
		case u.Info()&types.IsInteger != 0:
			w := basicSort(u).W
			if i, ok := constant.Int64Val(c.Value); ok {
				return Val{T, []*Term{BVConst(uint64(i), w)}}
			}
			uv, _ := constant.Uint64Val(c.Value)
			return Val{T, []*Term{BVConst(uv, w)}}
		case u.Info()&types.IsFloat != 0:
			r := constToRat(c.Value)
			return Val{T, []*Term{RealConst(r)}}
		case u.Info()&types.IsString != 0:
			return Val{T, []*Term{strLit(constant.StringVal(c.Value))}}
		}
	}
	panic(unsupported("constant of type " + typeName(T)))
}

func constToRat(v constant.Value) *big.Rat {
	v = constant.ToFloat(v)
	r := new(big.Rat)
	if f, ok := constant.Float64Val(v); ok || true {
		if rr, ok2 := constant.Val(v).(*big.Rat); ok2 {
			return rr
		}
		if rf, ok2 := constant.Val(v).(*big.Float); ok2 {
			rf.Rat(r)
			return r
		}
		r.SetFloat64(f)
	}
	return r
}

// ---------- verification driver ----------

func (e *Engine) fail(reason string) {
	if e.cur.reach == "" {
		e.cur.reach = reason
	}
}

// runPaths drains the worklist.
func (e *Engine) runPaths() {
	for len(e.work) > 0 {
		st := e.work[len(e.work)-1]
		e.work = e.work[:len(e.work)-1]
		e.cur.paths++
		if e.cur.paths > e.maxPaths {
			e.fail(fmt.Sprintf("more than %d paths", e.maxPaths))
			e.work = nil
			return
		}
		e.runPath(st)
	}
}

func (e *Engine) runPath(st *State) {
	defer func() {
		if r := recover(); r != nil {
			switch x := r.(type) {
			case pathEnd:
				return
			case unsupportedErr:
				e.fail(x.msg)
				return
			case error:
				if u, ok := x.(unsupportedErr); ok {
					e.fail(u.msg)
					return
				}
				panic(r)
			default:
				panic(r)
			}
		}
	}()
	for {
		if st.dead {
			if os.Getenv("GOVC_DEBUG") != "" {
				fmt.Printf("  path died (contradictory assumptions) trace=%v last=%v\n", st.trace, st.pc[len(st.pc)-1])
			}
			return
		}
		st.steps++
		if st.steps > e.maxSteps {
			e.fail(fmt.Sprintf("path longer than %d steps (unbounded loop without invariant?)", e.maxSteps))
			return
		}
		fr := st.top()
		if fr.ip >= len(fr.blk.Instrs) {
			panic("fell off block")
		}
		in := fr.blk.Instrs[fr.ip]
		fr.ip++
		e.step(st, fr, in)
	}
}

func (e *Engine) jump(st *State, fr *Frame, to *ssa.BasicBlock) {
	from := fr.blk
	// evaluate phis simultaneously
	var phis []*ssa.Phi
	for _, in := range to.Instrs {
		if p, ok := in.(*ssa.Phi); ok {
			phis = append(phis, p)
		} else {
			break
		}
	}
	predIdx := -1
	for i, p := range to.Preds {
		if p == from {
			predIdx = i
			break
		}
	}
	vals := make([]Val, len(phis))
	for i, p := range phis {
		vals[i] = e.val(st, fr, p.Edges[predIdx])
		vals[i].T = p.Type()
	}
	for i, p := range phis {
		fr.regs[p] = vals[i]
	}
	fr.prev = from
	fr.blk = to
	fr.ip = len(phis)
	// loop handling only for the function under verification's own frames and inlined ones alike
	loops := e.loopsOf(fr.fn)
	if li, ok := loops[to]; ok {
		e.atLoopHeader(st, fr, li, from)
	}
}

func (e *Engine) isTopFn(fr *Frame) bool { return fr.isTop }

// atLoopHeader implements invariant cut points; loops without invariant simply unroll (bounded by maxSteps / visits).
func (e *Engine) atLoopHeader(st *State, fr *Frame, li *loopInfo, from *ssa.BasicBlock) {
	var c *Contract
	lfn := ""
	if e.isTopFn(fr) {
		c = e.cur.c
	} else {
		c = e.contractFor(fr.fn) // inlined function with its own loop annotations
		// the function under verification may supply invariants for loops of inlined callees ("loop callee.K invariant")
		if e.cur.c != nil {
			name := fr.fn.Name()
			if len(e.cur.c.loopClausesFn("loop-invariant", li.ord, name)) > 0 {
				c = e.cur.c
				lfn = name
			}
		}
	}
	var invs []*Clause
	if c != nil {
		for _, cl := range c.loopClausesFn("loop-invariant", li.ord, lfn) {
			if cl.NoCase && e.cur.caseName != "" {
				continue
			}
			if cl.Case != "" && cl.Case != e.cur.caseName {
				continue // invariant of another behaviour
			}
			invs = append(invs, cl)
		}
	}
	back := li.header.Dominates(from) && li.body[from]
	key := fmt.Sprintf("%p/%d", fr.fn, li.ord)
	if len(invs) == 0 {
		fr.visits[li.header.Index]++
		limit := 70
		if c != nil {
			for _, cl := range c.loopClausesFn("loop-unroll", li.ord, lfn) {
				fmt.Sscanf(cl.Text, "%d", &limit)
				limit++
			}
		}
		if fr.visits[li.header.Index] > limit {
			e.fail(fmt.Sprintf("loop %d of %s needs an invariant (more than %d iterations)", li.ord, shortFn(fr.fn), limit))
			panic(pathEnd{"unroll limit"})
		}
		return
	}
	if _, disc := st.ghost["$discover/"+key]; disc && back {
		// write-discovery run came around
		e.discUnion(st)
		panic(pathEnd{"discovery came around"})
	}
	ctx := e.frameCtx(st, fr, li.header)
	if back && st.ghost["$inloop/"+key].L != nil {
		// back edge: invariant preserved + variant decreased
		if !e.isTopFn(fr) && lfn == "" && c != nil && c.Kind == "func" {
			// loop of an inlined callee annotated in the callee's own contract: preservation is an obligation of the
			// callee's own verification (it is a target of the checks of its properties), not of every caller again
			panic(pathEnd{"loop back edge (inlined callee)"})
		}
		for _, cl := range invs {
			g := e.evalBool(ctx, cl.Expr)
			e.oblige(st, "loop-inv-preserved", fmt.Sprintf("loop%s%d/inv-preserved#%d", lfnp(lfn), li.ord, cl.Ord), g, li.header.Instrs[0].Pos(), cl.Props, cl.Text)
		}
		for _, cl := range c.loopClausesFn("loop-decreases", li.ord, lfn) {
			newV := e.eval(ctx, cl.Expr)
			oldV := st.ghost["$variant/"+key+"/"+fmt.Sprint(cl.Ord)]
			var g *Term
			if isSigned(newV.T) {
				g = And(Slt(newV.t(), oldV.t()), Sle(BVConst(0, oldV.t().S.W), oldV.t()))
			} else {
				g = Ult(newV.t(), oldV.t())
			}
			e.oblige(st, "loop-decreases", fmt.Sprintf("loop%s%d/decreases#%d", lfnp(lfn), li.ord, cl.Ord), g, li.header.Instrs[0].Pos(), cl.Props, cl.Text)
		}
		panic(pathEnd{"loop back edge"})
	}
	// entry edge
	for _, cl := range invs {
		g := e.evalBool(ctx, cl.Expr)
		e.oblige(st, "loop-inv-entry", fmt.Sprintf("loop%s%d/inv-entry#%d", lfnp(lfn), li.ord, cl.Ord), g, li.header.Instrs[0].Pos(), cl.Props, cl.Text)
	}
	// discover written cells by a dry run of the body
	written := e.discoverLoopWrites(st, li, key)
	// havoc
	for _, in := range li.header.Instrs {
		p, ok := in.(*ssa.Phi)
		if !ok {
			break
		}
		nv := freshVal(p.Type(), "loop!"+p.Comment)
		st.assumeRefsOld(nv)
		// keep rich pointers: a phi of pointer type whose value is loop-variant cannot be tracked
		fr.regs[p] = nv
	}
	assignsGiven := c.loopClausesFn("loop-assigns", li.ord, lfn)
	if len(assignsGiven) > 0 {
		pre := st.snapshot()
		pctx := e.frameCtx(pre, fr, li.header)
		for _, cl := range assignsGiven {
			for _, ex := range cl.Exprs {
				e.havocLoc(st, pctx, ex)
			}
		}
	} else {
		for _, k := range written {
			old := st.mem[k]
			if old == nil {
				if srt, ok := e.discSorts[k]; ok {
					st.mem[k] = FreshVar("Hl|"+k, srt)
				}
				continue
			}
			nw := FreshVar("Hl|"+k, old.S)
			if strings.HasPrefix(k, "arr<") && old.S.Idx.W >= 128 {
				// slice backing arrays: objects that existed before the loop and are not written by the body keep
				// their contents (the body writes only the discovered objects and objects it allocates itself)
				j := Bound("j", old.S.Idx)
				lead := Extract(old.S.Idx.W-1, old.S.Idx.W-64, j)
				pre := Ule(lead, BVConst(st.nextRef, 64))
				var notW []*Term
				for r := range e.discRefs[k] {
					if isFreshRef(r) && r.Val > st.nextRef {
						continue // allocated inside the loop body
					}
					notW = append(notW, Not(Eq(lead, r)))
				}
				st.assume(Forall([]*Term{j}, Implies(And(append([]*Term{pre}, notW...)...), Eq(Select(nw, j), Select(old, j)))))
			}
			st.mem[k] = nw
		}
	}
	for gk := range st.ghost {
		if strings.HasPrefix(gk, "$stream/") {
			// stream ghosts are memory cells; handled via written keys
		}
	}
	st.ghost["$inloop/"+key] = boolVal(True)
	ctx = e.frameCtx(st, fr, li.header)
	for _, cl := range invs {
		t := e.evalBool(ctx, cl.Expr)
		if os.Getenv("GOVC_DEBUG_INV") != "" {
			s := t.String()
			if len(s) > 300 {
				s = s[:300]
			}
			fmt.Fprintf(os.Stderr, "INV %s#%d dead=%v: %s\n", shortFn(fr.fn), cl.Ord, st.dead, s)
		}
		st.assume(t)
	}
	for _, cl := range c.loopClausesFn("loop-decreases", li.ord, lfn) {
		st.ghost["$variant/"+key+"/"+fmt.Sprint(cl.Ord)] = e.eval(ctx, cl.Expr)
	}
	st.trace = append(st.trace, fmt.Sprintf("loop%d", li.ord))
}

// discoverLoopWrites symbolically runs the loop body once (all paths) to learn which memory cells it writes.
func (e *Engine) discoverLoopWrites(st *State, li *loopInfo, key string) []string {
	saveWork, saveDisc, savePaths := e.work, e.cur.discover, e.cur.paths
	e.cur.discover = true
	probe := st.clone()
	probe.written = map[string]bool{}
	probe.wrefs = map[string]map[*Term]bool{}
	e.discRefs = map[string]map[*Term]bool{}
	probe.ghost["$discover/"+key] = boolVal(True)
	union := map[string]bool{}
	e.work = []*State{probe}
	n := 0
	for len(e.work) > 0 {
		s := e.work[len(e.work)-1]
		e.work = e.work[:len(e.work)-1]
		n++
		if n > 512 {
			e.fail("loop write discovery: too many paths")
			break
		}
		e.runDiscover(s, li, key)
		for k, m := range s.wrefs {
			if e.discRefs[k] == nil {
				e.discRefs[k] = map[*Term]bool{}
			}
			for t := range m {
				e.discRefs[k][t] = true
			}
		}
		for k := range s.written {
			union[k] = true
			if a, ok := s.mem[k]; ok {
				if e.discSorts == nil {
					e.discSorts = map[string]*Sort{}
				}
				e.discSorts[k] = a.S
			}
		}
	}
	e.work, e.cur.discover, e.cur.paths = saveWork, saveDisc, savePaths
	for k := range e.discExtra {
		union[k] = true
	}
	e.discExtra = nil
	var out []string
	for k := range union {
		out = append(out, k)
	}
	sort.Strings(out)
	return out
}

// discUnion remembers the cells written by a discovery path that ends inside jump().
func (e *Engine) discUnion(st *State) {
	if e.discExtra == nil {
		e.discExtra = map[string]bool{}
	}
	for k, m := range st.wrefs {
		if e.discRefs == nil {
			e.discRefs = map[string]map[*Term]bool{}
		}
		if e.discRefs[k] == nil {
			e.discRefs[k] = map[*Term]bool{}
		}
		for t := range m {
			e.discRefs[k][t] = true
		}
	}
	for k := range st.written {
		e.discExtra[k] = true
		if a, ok := st.mem[k]; ok {
			if e.discSorts == nil {
				e.discSorts = map[string]*Sort{}
			}
			e.discSorts[k] = a.S
		}
	}
}

func (e *Engine) runDiscover(st *State, li *loopInfo, key string) {
	defer func() {
		if r := recover(); r != nil {
			if _, isRT := r.(runtime.Error); isRT && os.Getenv("GOVC_DEBUG") != "" {
				fmt.Println("runtime error in discovery:", r)
				debug.PrintStack()
			}
			switch x := r.(type) {
			case pathEnd:
				return
			case unsupportedErr:
				e.fail(x.msg)
				return
			default:
				panic(r)
			}
		}
	}()
	depth := len(st.stack)
	first := true
	for {
		if st.dead {
			if os.Getenv("GOVC_DEBUG") != "" {
				fmt.Printf("  path died (contradictory assumptions) trace=%v last=%v\n", st.trace, st.pc[len(st.pc)-1])
			}
			return
		}
		st.steps++
		if st.steps > e.maxSteps {
			return
		}
		if len(st.stack) < depth {
			return // returned out of the function containing the loop
		}
		fr := st.top()
		if len(st.stack) == depth && !first {
			if fr.blk == li.header && fr.ip == phiCount(li.header) {
				return // came around
			}
			if !li.body[fr.blk] {
				return // left the loop
			}
		}
		first = false
		in := fr.blk.Instrs[fr.ip]
		fr.ip++
		e.step(st, fr, in)
	}
}

func phiCount(b *ssa.BasicBlock) int {
	n := 0
	for _, in := range b.Instrs {
		if _, ok := in.(*ssa.Phi); ok {
			n++
		} else {
			break
		}
	}
	return n
}

// ---------- instruction semantics ----------

func (e *Engine) step(st *State, fr *Frame, in ssa.Instruction) {
	switch x := in.(type) {
	case *ssa.DebugRef:
		return
	case *ssa.Alloc:
		T := deref(x.Type())
		ref := st.alloc()
		pi := &PtrInfo{Ref: ref, Root: rootName(T), Elem: T}
		if at, ok := T.Underlying().(*types.Array); ok {
			pi.Root = arrRoot(at.Elem())
		}
		// memory at fresh refs reads as zero from H0; but cells may have been havoc'd: store zero explicitly for small objects
		e.zeroInit(st, pi, T)
		fr.regs[x] = mkPtr(pi)
	case *ssa.BinOp:
		fr.regs[x] = e.binop(st, x.Op, e.val(st, fr, x.X), e.val(st, fr, x.Y), x.Type(), x)
	case *ssa.UnOp:
		e.unop(st, fr, x)
	case *ssa.Phi:
		panic("phi reached in step")
	case *ssa.Call:
		e.call(st, fr, x)
	case *ssa.ChangeInterface:
		v := e.val(st, fr, x.X)
		fr.regs[x] = Val{x.Type(), v.L}
	case *ssa.ChangeType:
		v := e.val(st, fr, x.X)
		fr.regs[x] = Val{x.Type(), v.L}
	case *ssa.Convert:
		fr.regs[x] = e.convert(st, e.val(st, fr, x.X), x.Type())
	case *ssa.MultiConvert:
		panic(unsupported("MultiConvert"))
	case *ssa.Extract:
		fr.regs[x] = e.val(st, fr, x.Tuple).tupleElem(x.Index)
	case *ssa.Field:
		fr.regs[x] = e.val(st, fr, x.X).field(x.Field)
	case *ssa.FieldAddr:
		p := e.val(st, fr, x.X)
		e.nilCheck(st, p, x)
		pi := ptrInfo(p)
		stT := deref(x.X.Type()).Underlying().(*types.Struct)
		fl := stT.Field(x.Field)
		fr.regs[x] = mkPtr(pi.field(fl.Name(), fl.Type()))
	case *ssa.Index:
		e.index(st, fr, x)
	case *ssa.IndexAddr:
		e.indexAddr(st, fr, x)
	case *ssa.Lookup:
		e.lookup(st, fr, x)
	case *ssa.MakeChan:
		ref := st.alloc()
		fr.regs[x] = Val{x.Type(), []*Term{ref}}
	case *ssa.MakeClosure:
		fn := x.Fn.(*ssa.Function)
		fi := &FuncInfo{Fn: fn}
		for _, b := range x.Bindings {
			fi.Bind = append(fi.Bind, e.val(st, fr, b))
		}
		t := FreshVar("clo", Ref64)
		funcTab[t] = fi
		fr.regs[x] = Val{x.Type(), []*Term{t}}
	case *ssa.MakeInterface:
		fr.regs[x] = e.makeInterface(st, e.val(st, fr, x.X), x.Type())
	case *ssa.MakeMap:
		ref := st.alloc()
		fr.regs[x] = Val{x.Type(), []*Term{ref}}
		// fresh map: empty (H0 reads at fresh refs are zero/false)
		e.mapReset(st, x.Type(), ref)
	case *ssa.MakeSlice:
		e.makeSlice(st, fr, x)
	case *ssa.MapUpdate:
		m := e.val(st, fr, x.Map)
		e.oblige(st, "nilmap", e.siteName("nilmapstore", x), Not(Eq(m.t(), BVConst(0, 64))), x.Pos(), nil, "")
		e.mapStore(st, m, e.val(st, fr, x.Key), e.val(st, fr, x.Value))
	case *ssa.Next:
		e.next(st, fr, x)
	case *ssa.Range:
		e.rangeInit(st, fr, x)
	case *ssa.Select:
		e.selectInstr(st, fr, x)
	case *ssa.Slice:
		e.sliceOp(st, fr, x)
	case *ssa.SliceToArrayPointer:
		panic(unsupported("SliceToArrayPointer"))
	case *ssa.Store:
		p := e.val(st, fr, x.Addr)
		e.nilCheck(st, p, x)
		v := e.val(st, fr, x.Val)
		v.T = deref(x.Addr.Type())
		pi := ptrInfo(p)
		e.checkAssigns(st, pi, v.T, x)
		st.storeAt(pi, v)
	case *ssa.TypeAssert:
		e.typeAssert(st, fr, x)
	case *ssa.Defer:
		d := deferred{call: &x.Call}
		for _, a := range x.Call.Args {
			d.args = append(d.args, e.val(st, fr, a))
		}
		if !x.Call.IsInvoke() {
			if _, isB := x.Call.Value.(*ssa.Builtin); !isB {
				d.fnv = e.val(st, fr, x.Call.Value)
			}
		} else {
			d.fnv = e.val(st, fr, x.Call.Value)
		}
		fr.defers = append(fr.defers, d)
	case *ssa.Go:
		st.note("go statement not executed: " + x.Call.String())
		// A goroutine started from a closure may write the variables it captured; by the time the spawner reads them
		// (after a WaitGroup.Wait or a channel hand-shake) those writes have happened: forget the captured cells now.
		// Other effects of the goroutine (calls it makes) are covered by verifying the closure as a function of its own.
		if mc, ok := x.Call.Value.(*ssa.MakeClosure); ok {
			if cfn, ok := mc.Fn.(*ssa.Function); ok {
				w := writtenFreeVars(cfn, map[*ssa.Function]bool{})
				for i, b := range mc.Bindings {
					if !w[i] {
						continue // only read (or handed to callees whose own contracts state their effects)
					}
					bv := e.val(st, fr, b)
					if isPointer(bv.T) {
						st.havocAt(ptrInfo(bv), deref(bv.T), "go")
					}
				}
			}
		}
	case *ssa.If:
		c := e.val(st, fr, x.Cond).t()
		tb, fb := fr.blk.Succs[0], fr.blk.Succs[1]
		if !c.IsTrue() && !c.IsFalse() {
			// equalities "term == constant" on the path (e.g. a precondition fixing a length) decide the test by rewriting
			if m := st.constEqs(); len(m) > 0 {
				if r := Subst(c, m); r.IsTrue() || r.IsFalse() {
					c = r
				}
			}
		}
		if c.IsTrue() {
			e.jump(st, fr, tb)
			return
		}
		if c.IsFalse() {
			e.jump(st, fr, fb)
			return
		}
		// condition already decided by the path condition (same test evaluated before on this path)
		if st.knows(c) {
			e.jump(st, fr, tb)
			return
		}
		if st.knows(Not(c)) {
			e.jump(st, fr, fb)
			return
		}
		other := st.clone()
		other.assume(Not(c))
		other.trace = append(other.trace, fmt.Sprintf("b%d:F", fr.blk.Index))
		st.assume(c)
		st.trace = append(st.trace, fmt.Sprintf("b%d:T", fr.blk.Index))
		// the clone continues on the false branch
		e.pushJump(other, fb)
		e.jump(st, fr, tb)
	case *ssa.Jump:
		e.jump(st, fr, fr.blk.Succs[0])
	case *ssa.Panic:
		e.oblige(st, "panic", e.siteName("panic", x), False, x.Pos(), nil, "explicit panic unreachable")
		panic(pathEnd{"panic"})
	case *ssa.Return:
		e.ret(st, fr, x)
	case *ssa.RunDefers:
		e.runDefers(st, fr)
	case *ssa.Send:
		ch := e.val(st, fr, x.Chan)
		e.chanSendNamed(st, fr, x.Chan, ch, e.val(st, fr, x.X), x)
	default:
		panic(unsupported(fmt.Sprintf("instruction %T", in)))
	}
}

// pushJump schedules state st (a clone) to continue at block `to` from the current block of its top frame.
func (e *Engine) pushJump(st *State, to *ssa.BasicBlock) {
	fr := st.top()
	func() {
		defer func() {
			if r := recover(); r != nil {
				if _, ok := r.(pathEnd); ok {
					st.dead = true
					return
				}
				if u, ok := r.(unsupportedErr); ok {
					e.fail(u.msg)
					st.dead = true
					return
				}
				panic(r)
			}
		}()
		e.jump(st, fr, to)
	}()
	if !st.dead {
		e.work = append(e.work, st)
	}
}

func (e *Engine) zeroInit(st *State, pi *PtrInfo, T types.Type) {
	// only needed when the cell arrays are not the pristine H0 (where fresh refs read as zero)
	st.walk(pi, T, func(key string, idx []*Term, s *Sort) {
		if a, ok := st.mem[key]; ok {
			if pristineBase(a) {
				return
			}
			st.mem[key] = Store(a, idxTerm(idx), zeroOf(s))
		}
	})
}

func (e *Engine) nilCheck(st *State, p Val, in ssa.Instruction) {
	enc := p.t()
	if _, ok := ptrTab[enc]; ok {
		return
	}
	if isFreshRef(enc) {
		return
	}
	if enc.Op == OVar && strings.HasPrefix(enc.Name, "ref!global!") {
		return
	}
	e.oblige(st, "nilderef", e.siteName("nilderef", in), Not(Eq(enc, BVConst(0, 64))), in.Pos(), nil, "")
}

func (e *Engine) unop(st *State, fr *Frame, x *ssa.UnOp) {
	v := e.val(st, fr, x.X)
	switch x.Op {
	case token.MUL: // load
		if g, ok := x.X.(*ssa.Global); ok && g.Name() == "Discard" && (g.Pkg.Pkg.Path() == "io" || g.Pkg.Pkg.Path() == "io/ioutil") {
			// io.Discard: a writer whose output goes nowhere
			fr.regs[x] = Val{x.Type(), []*Term{typeTag(ghostStreamType("io.discard")), discardRef}}
			return
		}
		e.nilCheck(st, v, x)
		pi := ptrInfo(v)
		fr.regs[x] = st.loadAt(pi, x.Type())
		if g, ok := x.X.(*ssa.Global); ok && g.Pkg.Pkg.Path() == "io" && (g.Name() == "EOF" || g.Name() == "ErrUnexpectedEOF") {
			// sentinel errors of package io: non-nil and pairwise distinct
			eof := e.ioGlobalErr(st, "EOF")
			ueof := e.ioGlobalErr(st, "ErrUnexpectedEOF")
			st.assume(Not(e.ifaceEq(st, eof, ueof)))
		}
	case token.NOT:
		fr.regs[x] = Val{x.Type(), []*Term{Not(v.t())}}
	case token.SUB:
		if isFloat(x.Type()) {
			fr.regs[x] = Val{x.Type(), []*Term{RNeg(v.t())}}
		} else {
			fr.regs[x] = Val{x.Type(), []*Term{Neg(v.t())}}
		}
	case token.XOR:
		fr.regs[x] = Val{x.Type(), []*Term{BNot(v.t())}}
	case token.ARROW:
		fr.regs[x] = e.chanRecv(st, v, x)
	default:
		panic(unsupported("unop " + x.Op.String()))
	}
}

func toWidth(t *Term, w int, signed bool) *Term {
	if t.S.W == w {
		return t
	}
	if t.S.W > w {
		return Extract(w-1, 0, t)
	}
	if signed {
		return SExt(t, w)
	}
	return ZExt(t, w)
}

func (e *Engine) binop(st *State, op token.Token, a, b Val, T types.Type, in ssa.Instruction) Val {
	switch op {
	case token.EQL:
		return boolVal(e.deepEq(st, a, b))
	case token.NEQ:
		return boolVal(Not(e.deepEq(st, a, b)))
	}
	if isFloat(a.T) {
		x, y := a.t(), b.t()
		switch op {
		case token.ADD:
			return Val{T, []*Term{rbin(ORAdd, x, y)}}
		case token.SUB:
			return Val{T, []*Term{rbin(ORSub, x, y)}}
		case token.MUL:
			return Val{T, []*Term{rbin(ORMul, x, y)}}
		case token.QUO:
			return Val{T, []*Term{rbin(ORDiv, x, y)}}
		case token.LSS:
			return boolVal(rbin(ORLt, x, y))
		case token.LEQ:
			return boolVal(rbin(ORLe, x, y))
		case token.GTR:
			return boolVal(rbin(ORLt, y, x))
		case token.GEQ:
			return boolVal(rbin(ORLe, y, x))
		}
		panic(unsupported("float binop " + op.String()))
	}
	if isString(a.T) {
		switch op {
		case token.ADD:
			// concatenation of two literals is the literal of the concatenation
			if sa, oka := strLitVal[a.t()]; oka {
				if sb, okb := strLitVal[b.t()]; okb {
					return Val{T, []*Term{strLit(sa + sb)}}
				}
			}
			r := App("strcat", StrSort, a.t(), b.t())
			st.assume(Eq(strLen(r), Add(strLen(a.t()), strLen(b.t()))))
			return Val{T, []*Term{r}}
		case token.LSS:
			return boolVal(App("strlt", BoolSort, a.t(), b.t()))
		case token.GTR:
			return boolVal(App("strlt", BoolSort, b.t(), a.t()))
		case token.LEQ:
			return boolVal(Not(App("strlt", BoolSort, b.t(), a.t())))
		case token.GEQ:
			return boolVal(Not(App("strlt", BoolSort, a.t(), b.t())))
		}
		panic(unsupported("string binop " + op.String()))
	}
	if isBool(a.T) {
		switch op {
		case token.AND, token.LAND:
			return boolVal(And(a.t(), b.t()))
		case token.OR, token.LOR:
			return boolVal(Or(a.t(), b.t()))
		}
	}
	x, y := a.t(), b.t()
	signed := isSigned(a.T)
	switch op {
	case token.SHL, token.SHR:
		w := x.S.W
		if isSigned(b.T) && in != nil {
			e.oblige(st, "shiftneg", e.siteName("shiftneg", in), Sle(BVConst(0, y.S.W), y), in.Pos(), nil, "")
		}
		var yy *Term
		var big *Term = False
		if y.S.W > w {
			big = Ule(BVConst(uint64(w), y.S.W), y)
			yy = Extract(w-1, 0, y)
		} else {
			yy = ZExt(y, w)
		}
		var r *Term
		if op == token.SHL {
			r = Ite(big, BVConst(0, w), Shl(x, yy))
		} else if signed {
			r = Ite(big, Ashr(x, BVConst(uint64(w-1), w)), Ashr(x, yy))
		} else {
			r = Ite(big, BVConst(0, w), Lshr(x, yy))
		}
		return Val{T, []*Term{r}}
	}
	if x.S != y.S {
		// untyped const adaptation should not happen in SSA; be defensive
		y = toWidth(y, x.S.W, isSigned(b.T))
	}
	switch op {
	case token.ADD:
		return Val{T, []*Term{Add(x, y)}}
	case token.SUB:
		return Val{T, []*Term{Sub(x, y)}}
	case token.MUL:
		return Val{T, []*Term{Mul(x, y)}}
	case token.QUO, token.REM:
		if in != nil {
			e.oblige(st, "divzero", e.siteName("divzero", in), Not(Eq(y, BVConst(0, y.S.W))), in.Pos(), nil, "")
		}
		if signed {
			if op == token.QUO {
				return Val{T, []*Term{SDiv(x, y)}}
			}
			return Val{T, []*Term{SRem(x, y)}}
		}
		if op == token.QUO {
			return Val{T, []*Term{UDiv(x, y)}}
		}
		return Val{T, []*Term{URem(x, y)}}
	case token.AND:
		return Val{T, []*Term{BAnd(x, y)}}
	case token.OR:
		return Val{T, []*Term{BOr(x, y)}}
	case token.XOR:
		return Val{T, []*Term{BXor(x, y)}}
	case token.AND_NOT:
		return Val{T, []*Term{BAnd(x, BNot(y))}}
	case token.LSS:
		if signed {
			return boolVal(Slt(x, y))
		}
		return boolVal(Ult(x, y))
	case token.LEQ:
		if signed {
			return boolVal(Sle(x, y))
		}
		return boolVal(Ule(x, y))
	case token.GTR:
		if signed {
			return boolVal(Slt(y, x))
		}
		return boolVal(Ult(y, x))
	case token.GEQ:
		if signed {
			return boolVal(Sle(y, x))
		}
		return boolVal(Ule(y, x))
	}
	panic(unsupported("binop " + op.String()))
}

func (e *Engine) convert(st *State, v Val, T types.Type) Val {
	from, to := v.T.Underlying(), T.Underlying()
	fb, fok := from.(*types.Basic)
	tb, tok := to.(*types.Basic)
	switch {
	case fok && tok && fb.Info()&types.IsInteger != 0 && tb.Info()&types.IsInteger != 0:
		return Val{T, []*Term{toWidth(v.t(), basicSort(tb).W, isSigned(v.T))}}
	case fok && tok && fb.Info()&types.IsInteger != 0 && tb.Info()&types.IsFloat != 0:
		x := v.t()
		if x.Op == OConst {
			if isSigned(v.T) {
				return Val{T, []*Term{RealConst(new(big.Rat).SetInt64(sx(x.Val, x.S.W)))}}
			}
			return Val{T, []*Term{RealConst(new(big.Rat).SetInt(new(big.Int).SetUint64(x.Val)))}}
		}
		nm := "u2real"
		if isSigned(v.T) {
			nm = "s2real"
		}
		return Val{T, []*Term{App(fmt.Sprintf("%s%d", nm, x.S.W), RealSort, x)}}
	case fok && tok && fb.Info()&types.IsFloat != 0 && tb.Info()&types.IsInteger != 0 && v.t().Op == OApp && v.t().Name == "s2real64" && basicSort(tb).W == 64 && isSigned(T) && len(v.t().Args) == 1 && st.ghost["$exact/"+v.t().String()].L != nil:
		// int(float64(x)) where x was shown exactly representable (math.Min/Max model)
		return Val{T, []*Term{v.t().Args[0]}}
	case fok && tok && fb.Info()&types.IsFloat != 0 && tb.Info()&types.IsInteger != 0:
		return Val{T, []*Term{App(fmt.Sprintf("real2bv%d", basicSort(tb).W), basicSort(tb), v.t())}}
	case fok && tok && fb.Info()&types.IsFloat != 0 && tb.Info()&types.IsFloat != 0:
		return Val{T, v.L}
	case fok && tok && fb.Info()&types.IsString != 0 && tb.Info()&types.IsString != 0:
		return Val{T, v.L}
	case tok && tb.Info()&types.IsString != 0:
		if _, ok := from.(*types.Slice); ok {
			// string(bytes): opaque string with the same length, tied to content by an uninterpreted function
			arr := st.cellArr(arrRoot(from.(*types.Slice).Elem())+"|[]", 2, BV(8))
			s := App("str_of_bytes", StrSort, arr, v.sRef(), v.sOff(), v.sLen())
			if src, ok := st.ghost["$strsrc/"+v.sRef().String()]; ok {
				whole := And(src.L[0], Eq(src.L[2], v.sOff()), Eq(src.L[3], v.sLen()))
				s = Ite(whole, App("cidstr", StrSort, src.L[1]), s)
			}
			st.assume(Eq(strLen(s), v.sLen()))
			return Val{T, []*Term{s}}
		}
		if fok && fb.Info()&types.IsInteger != 0 {
			s := App("str_of_rune", StrSort, toWidth(v.t(), 64, false))
			return Val{T, []*Term{s}}
		}
	case fok && fb.Info()&types.IsString != 0:
		if sl, ok := to.(*types.Slice); ok {
			// []byte(s): fresh backing array whose content is bytes_of(s)
			ref := st.alloc()
			ln := strLen(v.t())
			key := arrRoot(sl.Elem()) + "|[]"
			arr := st.cellArr(key, 2, BV(8))
			_ = arr
			// content: forall i. arr[ref,i] = strbyte(s,i) -- expressed lazily through a uninterpreted "blit"
			st.mem[key] = App("blit_str", arr.S, arr, ref, v.t())
			st.written[key] = true
			return mkSlice(T, ref, BVConst(0, 64), ln, ln)
		}
	case isPointer(v.T) || isPointer(T):
		// unsafe.Pointer conversions
		return Val{T, v.L}
	}
	if len(leafSorts(v.T)) == len(leafSorts(T)) {
		same := true
		for i, s := range leafSorts(T) {
			if leafSorts(v.T)[i] != s {
				same = false
			}
		}
		if same {
			return Val{T, v.L}
		}
	}
	panic(unsupported(fmt.Sprintf("convert %s -> %s", typeName(v.T), typeName(T))))
}

// ---------- equality ----------

// deepEq implements Go's == on two values of the same static type.
func (e *Engine) deepEq(st *State, a, b Val) *Term {
	T := a.T
	if isIface(a.T) && !isIface(b.T) {
		b = e.makeInterface(st, b, a.T)
	}
	if isIface(b.T) && !isIface(a.T) {
		a = e.makeInterface(st, a, b.T)
		T = b.T
	}
	switch u := T.Underlying().(type) {
	case *types.Struct:
		var cs []*Term
		for i := 0; i < u.NumFields(); i++ {
			cs = append(cs, e.deepEq(st, a.field(i), b.field(i)))
		}
		return And(cs...)
	case *types.Array:
		var cs []*Term
		for i := 0; i < int(u.Len()); i++ {
			cs = append(cs, e.deepEq(st, a.arrayElem(i), Val{b.T, b.L}.arrayElem(i)))
		}
		return And(cs...)
	case *types.Interface:
		return e.ifaceEq(st, a, b)
	case *types.Pointer:
		return e.ptrEq(a, b)
	case *types.Slice:
		// only comparison with nil is legal
		if b.sRef().Op == OConst && b.sRef().Val == 0 {
			return Eq(a.sRef(), BVConst(0, 64))
		}
		return Eq(b.sRef(), BVConst(0, 64))
	}
	if len(a.L) != 1 || len(b.L) != 1 {
		panic(unsupported("== on " + typeName(T)))
	}
	x, y := a.t(), b.t()
	if x.S != y.S && x.S.Kind == SBV && y.S.Kind == SBV {
		y = toWidth(y, x.S.W, false)
	}
	return Eq(x, y)
}

func (e *Engine) ptrEq(a, b Val) *Term {
	pa, oka := ptrTab[a.t()]
	pb, okb := ptrTab[b.t()]
	if oka && okb {
		if a.t() == b.t() {
			return True
		}
		if pa.Root != pb.Root || len(pa.Path) != len(pb.Path) {
			return False
		}
		cs := []*Term{Eq(pa.Ref, pb.Ref)}
		for i := range pa.Path {
			if (pa.Path[i].Idx == nil) != (pb.Path[i].Idx == nil) || pa.Path[i].Field != pb.Path[i].Field {
				return False
			}
			if pa.Path[i].Idx != nil {
				cs = append(cs, Eq(pa.Path[i].Idx, pb.Path[i].Idx))
			}
		}
		return And(cs...)
	}
	if oka || okb {
		// interior pointer vs plain reference: equal only if the plain one is the same interior location; never nil
		other := b.t()
		if okb {
			other = a.t()
		}
		if other.Op == OConst {
			return False
		}
		if isFreshRef(other) {
			return False
		}
		return FreshVar("ptreq", BoolSort)
	}
	return Eq(a.t(), b.t())
}

// closedImpls returns the closed implementor set for an interface type, if declared.
func (e *Engine) closedImpls(T types.Type) []types.Type {
	n, ok := T.(*types.Named)
	if !ok || n.Obj().Pkg() == nil {
		return nil
	}
	names := e.cs.Closed[n.Obj().Pkg().Path()+"::"+n.Obj().Name()]
	if names == nil {
		return nil
	}
	var out []types.Type
	for _, nm := range names {
		t := e.resolveType(nm, n.Obj().Pkg())
		if t == nil {
			panic(unsupported("closed set: unknown type " + nm))
		}
		out = append(out, t)
	}
	return out
}

// ifaceEq: Go interface equality (dynamic types identical and dynamic values equal).
func (e *Engine) ifaceEq(st *State, a, b Val) *Term {
	ta, tb := a.iTag(), b.iTag()
	// nil checks
	if tb.Op == OConst && tb.Val == 0 {
		return Eq(ta, BVConst(0, 32))
	}
	if ta.Op == OConst && ta.Val == 0 {
		return Eq(tb, BVConst(0, 32))
	}
	tagEq := Eq(ta, tb)
	if tagEq.IsFalse() {
		return False
	}
	// candidate dynamic types
	var cands []types.Type
	if ta.Op == OConst {
		cands = []types.Type{typeOfTag[ta.Val]}
	} else if tb.Op == OConst {
		cands = []types.Type{typeOfTag[tb.Val]}
	} else if ci := e.closedImpls(a.T); ci != nil {
		cands = ci
	} else if ci := e.closedImpls(b.T); ci != nil {
		cands = ci
	}
	if cands == nil {
		// unknown dynamic types: identical payload reference implies equality; different tags implies inequality
		x, y := a, b
		if x.iTag().id > y.iTag().id || (x.iTag() == y.iTag() && x.iPl().id > y.iPl().id) {
			x, y = y, x
		}
		r := App("ifeq", BoolSort, x.iTag(), x.iPl(), y.iTag(), y.iPl())
		st.assume(Implies(Not(tagEq), Not(r)))
		st.assume(Implies(And(tagEq, Eq(a.iPl(), b.iPl())), r))
		return r
	}
	// both nil, or the very same dynamic value (same box / same pointer)
	res := Or(Eq(ta, BVConst(0, 32)), Eq(a.iPl(), b.iPl()))
	for _, c := range cands {
		if c == nil {
			continue
		}
		isC := Eq(ta, typeTag(c))
		if isC.IsFalse() {
			continue
		}
		va := e.unbox(st, a, c)
		vb := e.unbox(st, b, c)
		res = Or(res, And(isC, e.deepEq(st, va, vb)))
	}
	return And(tagEq, res)
}

// makeInterface boxes a concrete value into an interface value.
func (e *Engine) makeInterface(st *State, v Val, T types.Type) Val {
	if isIface(v.T) {
		return Val{T, v.L}
	}
	if b, ok := v.T.(*types.Basic); ok && b.Kind() == types.UntypedNil {
		return zeroVal(T)
	}
	tag := typeTag(v.T)
	switch v.T.Underlying().(type) {
	case *types.Pointer, *types.Map, *types.Chan, *types.Signature:
		return Val{T, []*Term{tag, v.t()}}
	}
	// value type: box (hash-consed per content so that equal boxed constants share a box)
	ref := e.boxOf(st, v)
	return Val{T, []*Term{tag, ref}}
}

var boxCache = map[string]*Term{}

func (e *Engine) boxOf(st *State, v Val) *Term {
	var sb strings.Builder
	sb.WriteString(typeName(v.T))
	for _, l := range v.L {
		fmt.Fprintf(&sb, "#%d", l.id)
	}
	k := sb.String()
	ref, ok := boxCache[k]
	if !ok {
		ref = FreshVar("ref!box", Ref64)
		boxCache[k] = ref
	}
	// boxes are immutable: (re)assert content in this state
	pi := &PtrInfo{Ref: ref, Root: boxRoot(v.T), Elem: v.T}
	i := 0
	st.walk(pi, v.T, func(key string, idx []*Term, s *Sort) {
		cur := st.loadLeaf(key, idx, s)
		if cur != v.L[i] {
			st.assume(Eq(cur, v.L[i]))
		}
		i++
	})
	st.assume(Not(Eq(ref, BVConst(0, 64))))
	return ref
}

// unbox reads the dynamic value of iface v assuming its dynamic type is T.
func (e *Engine) unbox(st *State, v Val, T types.Type) Val {
	switch T.Underlying().(type) {
	case *types.Pointer, *types.Map, *types.Chan, *types.Signature:
		return Val{T, []*Term{v.iPl()}}
	}
	pi := &PtrInfo{Ref: v.iPl(), Root: boxRoot(T), Elem: T}
	return st.loadAt(pi, T)
}

func (e *Engine) typeAssert(st *State, fr *Frame, x *ssa.TypeAssert) {
	v := e.val(st, fr, x.X)
	tag := v.iTag()
	var ok *Term
	var res Val
	if isIface(x.AssertedType) {
		it := x.AssertedType.Underlying().(*types.Interface)
		if tag.Op == OConst {
			if tag.Val == 0 {
				ok = False
			} else {
				ok = BoolConst(types.Implements(typeOfTag[tag.Val], it))
			}
		} else if it.NumMethods() == 0 {
			ok = Not(Eq(tag, BVConst(0, 32)))
		} else if ci := e.closedImpls(x.X.Type()); ci != nil {
			ok = False
			for _, c := range ci {
				if types.Implements(c, it) {
					ok = Or(ok, Eq(tag, typeTag(c)))
				}
			}
		} else {
			ok = And(Not(Eq(tag, BVConst(0, 32))), App("implements!"+typeName(x.AssertedType), BoolSort, tag))
		}
		res = Val{x.AssertedType, v.L}
	} else {
		ok = Eq(tag, typeTag(x.AssertedType))
		if ok.IsFalse() {
			res = zeroVal(x.AssertedType)
		} else {
			res = e.unbox(st, v, x.AssertedType)
		}
	}
	if x.CommaOk {
		// result is (value or zero, ok)
		z := zeroVal(x.AssertedType)
		L := make([]*Term, len(res.L)+1)
		for i := range res.L {
			L[i] = Ite(ok, res.L[i], z.L[i])
		}
		L[len(res.L)] = ok
		fr.regs[x] = Val{x.Type(), L}
		return
	}
	e.oblige(st, "typeassert", e.siteName("typeassert", x), ok, x.Pos(), nil, "")
	fr.regs[x] = res
}

// ---------- slices, arrays, maps ----------

func (e *Engine) elemPI(sl Val, i *Term) *PtrInfo {
	et := sl.T.Underlying().(*types.Slice).Elem()
	return &PtrInfo{Ref: sl.sRef(), Root: arrRoot(et), Path: []Step{{Idx: Add(sl.sOff(), i)}}, Elem: et}
}

func (e *Engine) boundsCheck(st *State, i, ln *Term, in ssa.Instruction) {
	e.oblige(st, "index", e.siteName("index", in), Ult(i, ln), in.Pos(), nil, "")
}

func (e *Engine) indexAddr(st *State, fr *Frame, x *ssa.IndexAddr) {
	base := e.val(st, fr, x.X)
	i := toWidth(e.val(st, fr, x.Index).t(), 64, isSigned(x.Index.Type()))
	switch u := x.X.Type().Underlying().(type) {
	case *types.Slice:
		e.boundsCheck(st, i, base.sLen(), x)
		fr.regs[x] = mkPtr(e.elemPI(base, i))
	case *types.Pointer:
		at := u.Elem().Underlying().(*types.Array)
		e.nilCheck(st, base, x)
		e.boundsCheck(st, i, BVConst(uint64(at.Len()), 64), x)
		pi := ptrInfo(base)
		if len(pi.Path) == 0 && pi.Root == arrRoot(at.Elem()) {
			fr.regs[x] = mkPtr(&PtrInfo{Ref: pi.Ref, Root: pi.Root, Path: []Step{{Idx: i}}, Elem: at.Elem()})
		} else {
			fr.regs[x] = mkPtr(pi.index(i, at.Elem()))
		}
	default:
		panic(unsupported("IndexAddr on " + typeName(x.X.Type())))
	}
}

func (e *Engine) index(st *State, fr *Frame, x *ssa.Index) {
	base := e.val(st, fr, x.X)
	i := toWidth(e.val(st, fr, x.Index).t(), 64, isSigned(x.Index.Type()))
	switch u := x.X.Type().Underlying().(type) {
	case *types.Array:
		e.boundsCheck(st, i, BVConst(uint64(u.Len()), 64), x)
		if i.Op == OConst {
			fr.regs[x] = base.arrayElem(int(i.Val))
			return
		}
		n := len(leafSorts(u.Elem()))
		L := make([]*Term, n)
		for j := 0; j < n; j++ {
			t := base.L[j]
			for k := int64(1); k < u.Len(); k++ {
				t = Ite(Eq(i, BVConst(uint64(k), 64)), base.L[int(k)*n+j], t)
			}
			L[j] = t
		}
		fr.regs[x] = Val{u.Elem(), L}
	case *types.Basic: // string
		e.boundsCheck(st, i, strLen(base.t()), x)
		fr.regs[x] = Val{x.Type(), []*Term{App("strbyte", BV(8), base.t(), i)}}
	default:
		panic(unsupported("Index on " + typeName(x.X.Type())))
	}
}

func (e *Engine) makeSlice(st *State, fr *Frame, x *ssa.MakeSlice) {
	ln := toWidth(e.val(st, fr, x.Len).t(), 64, isSigned(x.Len.Type()))
	cp := toWidth(e.val(st, fr, x.Cap).t(), 64, isSigned(x.Cap.Type()))
	et := x.Type().Underlying().(*types.Slice).Elem()
	esz := uint64(sizeofType(et))
	if esz == 0 {
		esz = 1
	}
	limit := uint64(1) << 47 / esz
	// runtime panics: len out of range, cap out of range
	g := And(Ule(ln, cp), Ule(cp, BVConst(limit, 64)))
	e.oblige(st, "makelen", e.siteName("makelen", x), g, x.Pos(), nil, "make: 0 <= len <= cap <= max")
	if ac := e.allocCap(); ac > 0 && cp.Op != OConst {
		e.oblige(st, "alloccap", e.siteName("alloccap", x), Ule(cp, BVConst(ac/esz, 64)), x.Pos(), []string{"C04"}, fmt.Sprintf("allocation bounded by %d bytes", ac))
	}
	ref := st.alloc()
	e.zeroSlice(st, et, ref)
	fr.regs[x] = mkSlice(x.Type(), ref, BVConst(0, 64), ln, cp)
}

func (e *Engine) allocCap() uint64 {
	if e.cur.c != nil {
		return e.cur.c.AllocCap
	}
	return 0
}

// zeroSlice makes the arr<et> cells at ref read as zero (only needed if the arrays were havoc'd).
func (e *Engine) zeroSlice(st *State, et types.Type, ref *Term) {
	pi := &PtrInfo{Ref: ref, Root: arrRoot(et), Path: []Step{{Idx: BVConst(0, 64)}}, Elem: et}
	st.walk(pi, et, func(key string, idx []*Term, s *Sort) {
		if a, ok := st.mem[key]; ok {
			if pristineBase(a) {
				return
			}
			// havoc'd array: restore zero region for this ref via an uninterpreted "zero-fill"
			st.mem[key] = preciseZeroFill(st, key, a, ref)
		}
	})
}


// preciseZeroFill: array a (already havoc'd, so reads at fresh references are not known to be zero) with the cells of
// the new object ref reset to zero and every other cell unchanged.
func preciseZeroFill(st *State, key string, a *Term, ref *Term) *Term {
	w := a.S.Idx.W
	nw := FreshVar("Hz|"+key, a.S)
	j := Bound("j", BV(w))
	lead := j
	if w > 64 {
		lead = Extract(w-1, w-64, j)
	}
	var zero *Term
	switch a.S.Elem.Kind {
	case SBV:
		zero = BVConst(0, a.S.Elem.W)
	case SBool:
		zero = False
	case SReal:
		zero = RealConst(new(big.Rat))
	}
	own := Eq(lead, ref)
	var body *Term
	if zero != nil {
		body = Eq(Select(nw, j), Ite(own, zero, Select(a, j)))
	} else {
		body = Or(own, Eq(Select(nw, j), Select(a, j)))
	}
	st.assume(Forall([]*Term{j}, body))
	return nw
}

func sizeofType(T types.Type) int64 {
	return types.SizesFor("gc", "amd64").Sizeof(T)
}

func (e *Engine) sliceOp(st *State, fr *Frame, x *ssa.Slice) {
	base := e.val(st, fr, x.X)
	get := func(v ssa.Value) *Term {
		if v == nil {
			return nil
		}
		return toWidth(e.val(st, fr, v).t(), 64, isSigned(v.Type()))
	}
	lo, hi, mx := get(x.Low), get(x.High), get(x.Max)
	if lo == nil {
		lo = BVConst(0, 64)
	}
	switch u := x.X.Type().Underlying().(type) {
	case *types.Slice:
		cp := base.sCap()
		if hi == nil {
			hi = base.sLen()
		}
		if mx == nil {
			mx = cp
		}
		g := And(Ule(lo, hi), Ule(hi, mx), Ule(mx, cp))
		e.oblige(st, "slice", e.siteName("slice", x), g, x.Pos(), nil, "slice bounds")
		fr.regs[x] = mkSlice(x.Type(), base.sRef(), Add(base.sOff(), lo), Sub(hi, lo), Sub(mx, lo))
	case *types.Basic: // string
		ln := strLen(base.t())
		if hi == nil {
			hi = ln
		}
		g := And(Ule(lo, hi), Ule(hi, ln))
		e.oblige(st, "slice", e.siteName("slice", x), g, x.Pos(), nil, "string slice bounds")
		r := App("substr", StrSort, base.t(), lo, hi)
		st.assume(Eq(strLen(r), Sub(hi, lo)))
		fr.regs[x] = Val{x.Type(), []*Term{r}}
	case *types.Pointer:
		at := u.Elem().Underlying().(*types.Array)
		e.nilCheck(st, base, x)
		n := BVConst(uint64(at.Len()), 64)
		if hi == nil {
			hi = n
		}
		if mx == nil {
			mx = n
		}
		g := And(Ule(lo, hi), Ule(hi, mx), Ule(mx, n))
		e.oblige(st, "slice", e.siteName("slice", x), g, x.Pos(), nil, "slice bounds")
		pi := ptrInfo(base)
		if len(pi.Path) != 0 || pi.Root != arrRoot(at.Elem()) {
			panic(unsupported("slicing an interior array"))
		}
		fr.regs[x] = mkSlice(x.Type(), pi.Ref, lo, Sub(hi, lo), Sub(mx, lo))
	default:
		panic(unsupported("Slice on " + typeName(x.X.Type())))
	}
}

// ---------- maps ----------

func mapRoot(T types.Type) string {
	return "map<" + typeName(T.Underlying().(*types.Map).Key()) + "," + typeName(T.Underlying().(*types.Map).Elem()) + ">"
}

// keyLeaves flattens a map key into canonical comparison leaves.
func (e *Engine) keyLeaves(st *State, k Val) []*Term {
	var out []*Term
	var rec func(v Val)
	rec = func(v Val) {
		switch u := v.T.Underlying().(type) {
		case *types.Struct:
			for i := 0; i < u.NumFields(); i++ {
				rec(v.field(i))
			}
		case *types.Array:
			for i := 0; i < int(u.Len()); i++ {
				rec(v.arrayElem(i))
			}
		case *types.Interface:
			ci := e.closedImpls(v.T)
			if ci == nil {
				if v.iTag().Op == OConst && v.iTag().Val != 0 {
					ci = []types.Type{typeOfTag[v.iTag().Val]}
				} else {
					panic(unsupported("map key with open interface type " + typeName(v.T)))
				}
			}
			out = append(out, v.iTag())
			for _, c := range ci {
				isC := Eq(v.iTag(), typeTag(c))
				if isC.IsFalse() {
					z := zeroVal(c)
					var zr func(z Val)
					zr = func(z Val) { out = append(out, z.L...) }
					zr(z)
					continue
				}
				dv := e.unbox(st, v, c)
				z := zeroVal(c)
				// nested interfaces inside implementors are not expected
				for i := range dv.L {
					out = append(out, Ite(isC, dv.L[i], z.L[i]))
				}
			}
		default:
			out = append(out, v.L...)
		}
	}
	rec(k)
	return out
}

func mapIdx(ref *Term, kl []*Term) []*Term {
	idx := []*Term{ref}
	for _, l := range kl {
		switch l.S.Kind {
		case SBV:
			idx = append(idx, toWidth(l, 64, false))
		case SBool:
			idx = append(idx, Ite(l, BVConst(1, 64), BVConst(0, 64)))
		case SUn:
			if l.S == StrSort {
				idx = append(idx, App("strid", Ref64, l))
				continue
			}
			panic(unsupported("map key leaf sort " + l.S.key()))
		default:
			panic(unsupported("map key leaf sort " + l.S.key()))
		}
	}
	return idx
}

func (e *Engine) mapReset(st *State, T types.Type, ref *Term) {
	root := mapRoot(T)
	for _, k := range st.memKeys() {
		if strings.HasPrefix(k, root+"|") {
			a := st.mem[k]
			if pristineBase(a) {
				continue
			}
			st.mem[k] = preciseZeroFill(st, k, a, ref)
		}
	}
}

func (e *Engine) mapLoad(st *State, m Val, k Val) (Val, *Term) {
	mt := m.T.Underlying().(*types.Map)
	root := mapRoot(m.T)
	idx := mapIdx(m.t(), e.keyLeaves(st, k))
	has := st.loadLeaf(root+"|has", idx, BoolSort)
	ss := leafSorts(mt.Elem())
	L := make([]*Term, len(ss))
	z := zeroVal(mt.Elem())
	raw := make([]*Term, len(ss))
	for j, s := range ss {
		raw[j] = st.loadLeaf(fmt.Sprintf("%s|val#%d", root, j), idx, s)
		L[j] = Ite(has, raw[j], z.L[j])
	}
	// stored values are well-formed Go values
	open := false
	for _, t := range raw {
		if t.hasBound {
			open = true
		}
	}
	if !open && !has.hasBound {
		st.assumeSliceWF(Val{mt.Elem(), raw})
	}
	return Val{mt.Elem(), L}, has
}

func (e *Engine) mapStore(st *State, m Val, k Val, v Val) {
	root := mapRoot(m.T)
	idx := mapIdx(m.t(), e.keyLeaves(st, k))
	has := st.loadLeaf(root+"|has", idx, BoolSort)
	ln := st.loadLeaf(root+"|len", []*Term{m.t()}, Ref64)
	st.storeLeaf(root+"|len", []*Term{m.t()}, Ite(has, ln, Add(ln, BVConst(1, 64))))
	st.storeLeaf(root+"|has", idx, True)
	for j := range v.L {
		st.storeLeaf(fmt.Sprintf("%s|val#%d", root, j), idx, v.L[j])
	}
}

func (e *Engine) mapDelete(st *State, m Val, k Val) {
	root := mapRoot(m.T)
	idx := mapIdx(m.t(), e.keyLeaves(st, k))
	has := st.loadLeaf(root+"|has", idx, BoolSort)
	ln := st.loadLeaf(root+"|len", []*Term{m.t()}, Ref64)
	st.storeLeaf(root+"|len", []*Term{m.t()}, Ite(has, Sub(ln, BVConst(1, 64)), ln))
	st.storeLeaf(root+"|has", idx, False)
}

func (e *Engine) lookup(st *State, fr *Frame, x *ssa.Lookup) {
	base := e.val(st, fr, x.X)
	if isString(x.X.Type()) {
		i := toWidth(e.val(st, fr, x.Index).t(), 64, isSigned(x.Index.Type()))
		e.boundsCheck(st, i, strLen(base.t()), x)
		fr.regs[x] = Val{x.Type(), []*Term{App("strbyte", BV(8), base.t(), i)}}
		return
	}
	k := e.val(st, fr, x.Index)
	k.T = x.X.Type().Underlying().(*types.Map).Key()
	if isIface(k.T) && !isIface(x.Index.Type()) {
		k = e.makeInterface(st, e.val(st, fr, x.Index), k.T)
	}
	v, has := e.mapLoad(st, base, k)
	if x.CommaOk {
		fr.regs[x] = Val{x.Type(), append(append([]*Term{}, v.L...), has)}
	} else {
		fr.regs[x] = v
	}
}

// map iteration: arbitrary order with a ghost visited set.
func (e *Engine) rangeInit(st *State, fr *Frame, x *ssa.Range) {
	base := e.val(st, fr, x.X)
	if isString(x.X.Type()) {
		panic(unsupported("range over string"))
	}
	it := st.alloc()
	st.ghost["$iter/"+it.String()] = base
	fr.regs[x] = Val{x.Type(), []*Term{it}}
}

func (e *Engine) next(st *State, fr *Frame, x *ssa.Next) {
	if x.IsString {
		panic(unsupported("range over string"))
	}
	itv := e.val(st, fr, x.Iter)
	m := st.ghost["$iter/"+itv.t().String()]
	if m.L == nil {
		panic(unsupported("map iterator lost (loop havoc)"))
	}
	mt := m.T.Underlying().(*types.Map)
	root := mapRoot(m.T)
	ok := FreshVar("next_ok", BoolSort)
	k := freshVal(mt.Key(), "next_k")
	st.assumeRefsOld(k)
	idx := mapIdx(m.t(), e.keyLeaves(st, k))
	visKey := "iter|visited"
	vidx := append([]*Term{itv.t()}, idx[1:]...)
	visArr := st.cellArr(fmt.Sprintf("%s/%d", visKey, len(vidx)), len(vidx), BoolSort)
	_ = visArr
	visited := st.loadLeaf(fmt.Sprintf("%s/%d", visKey, len(vidx)), vidx, BoolSort)
	has := st.loadLeaf(root+"|has", idx, BoolSort)
	st.assume(Implies(ok, And(has, Not(visited))))
	// count of visited entries bounds iteration: len - visitedCount decreases
	cntKey := "iter|count"
	cnt := st.loadLeaf(cntKey, []*Term{itv.t()}, Ref64)
	ln := st.loadLeaf(root+"|len", []*Term{m.t()}, Ref64)
	st.assume(Eq(ok, Ult(cnt, ln)))
	v, _ := e.mapLoad(st, m, k)
	// commit visit when ok
	st.storeLeaf(fmt.Sprintf("%s/%d", visKey, len(vidx)), vidx, Or(visited, ok))
	st.storeLeaf(cntKey, []*Term{itv.t()}, Ite(ok, Add(cnt, BVConst(1, 64)), cnt))
	// Completeness of a finished iteration: when the iterator is exhausted, every key that is (still) in the map has
	// been produced. (Go leaves open whether keys inserted during the iteration are produced; no loop in this code
	// base inserts into the map it ranges over - assumption recorded in the evidence.)
	{
		ss := leafSorts(mt.Key())
		bl := make([]*Term, len(ss))
		for i, srt := range ss {
			nm := "rk"
			if len(ss) > 1 {
				nm = fmt.Sprintf("rk_%d", i)
			}
			bl[i] = BoundCanon(nm, 9, srt)
		}
		kb := Val{mt.Key(), bl}
		func() {
			defer func() {
				if r := recover(); r != nil {
					if _, isPE := r.(pathEnd); isPE {
						panic(r)
					}
					// key types whose canonical leaves cannot be built over bound variables: no completeness fact
				}
			}()
			bidx := mapIdx(m.t(), e.keyLeaves(st, kb))
			bvidx := append([]*Term{itv.t()}, bidx[1:]...)
			hasB := st.loadLeaf(root+"|has", bidx, BoolSort)
			visB := st.loadLeaf(fmt.Sprintf("%s/%d", visKey, len(bvidx)), bvidx, BoolSort)
			body := Implies(hasB, visB)
			q := Forall(bl, body)
			if q.Op == OForall {
				quantInfo[q] = &qInfo{Vars: []qVar{{"rk", mt.Key(), bl}}, Body: body}
				st.assume(Implies(Not(ok), q))
				st.note("range over map: an exhausted iterator has produced every key still in the map (no insertion into the iterated map during the loop)")
			}
		}()
	}
	tp := x.Type().(*types.Tuple)
	L := []*Term{ok}
	if !isInvalid(tp.At(1).Type()) {
		L = append(L, k.L...)
	}
	if !isInvalid(tp.At(2).Type()) {
		L = append(L, v.L...)
	}
	fr.regs[x] = Val{x.Type(), L}
}

func isInvalid(T types.Type) bool {
	b, ok := T.(*types.Basic)
	return ok && b.Kind() == types.Invalid
}

// ---------- channels (sequential ghost model) ----------

func (e *Engine) chanSendNamed(st *State, fr *Frame, chv ssa.Value, ch Val, v Val, in ssa.Instruction) {
	e.chanInv(st, fr, chv, v, true, in)
	e.chanSend(st, ch, v, in)
}

func (e *Engine) chanSend(st *State, ch Val, v Val, in ssa.Instruction) {
	closed := st.loadLeaf("chan|closed", []*Term{ch.t()}, BoolSort)
	e.oblige(st, "chansend", e.siteName("chansend", in), Not(closed), in.Pos(), nil, "send on closed channel")
	n := st.loadLeaf("chan|sent", []*Term{ch.t()}, Ref64)
	for j, l := range v.L {
		key := fmt.Sprintf("chanlog<%s>|#%d", typeName(v.T), j)
		st.storeLeaf(key, []*Term{ch.t(), n}, l)
	}
	st.storeLeaf("chan|sent", []*Term{ch.t()}, Add(n, BVConst(1, 64)))
}

// chanName: the source-level name of a channel operand (local variable, captured variable), "" if unknown.
func chanName(v ssa.Value) string {
	if u, ok := v.(*ssa.UnOp); ok && u.Op == token.MUL {
		switch a := u.X.(type) {
		case *ssa.Alloc:
			return a.Comment
		case *ssa.FreeVar:
			return a.Name()
		}
	}
	if fn := v.Parent(); fn != nil {
		for _, b := range fn.Blocks {
			for _, in := range b.Instrs {
				if d, ok := in.(*ssa.DebugRef); ok && d.X == v && !d.IsAddr {
					if id, ok := d.Expr.(*ast.Ident); ok {
						return id.Name
					}
				}
			}
		}
	}
	return ""
}

// chanInv: "chaninv NAME: expr" clauses of the contract under verification: every value travelling through the
// channel NAME satisfies expr (written over the identifier v). Assumed for received values, an obligation for sent
// ones - the rely/guarantee link between a function and the goroutine closures it starts, each verified on its own.
func (e *Engine) chanInv(st *State, fr *Frame, chv ssa.Value, v Val, send bool, in ssa.Instruction) {
	if e.cur == nil || e.cur.c == nil {
		return
	}
	name := chanName(chv)
	if name == "" {
		return
	}
	c := e.cur.c
	if !fr.isTop {
		return
	}
	for _, cl := range c.Clauses {
		if cl.Kind != "chaninv" || cl.Name != name {
			continue
		}
		ctx := e.frameCtx(st, fr, fr.blk)
		ctx.env["v"] = v
		g := e.evalBool(ctx, cl.Expr)
		if send {
			if !e.cur.discover && e.cur.collect == nil {
				e.curClause = cl
				e.oblige(st, "chaninv", fmt.Sprintf("chaninv@%s#%d", name, cl.Ord), g, in.Pos(), cl.Props, cl.Text)
				e.curClause = nil
			}
		} else {
			st.assume(g)
			st.note("channel invariant assumed for values received from " + name + " (guaranteed by the senders under the same clause)")
		}
	}
}

func (e *Engine) chanRecv(st *State, ch Val, x *ssa.UnOp) Val {
	et := ch.T.Underlying().(*types.Chan).Elem()
	v := freshVal(et, "recv")
	st.assumeRefsOld(v)
	if fr := st.top(); fr != nil {
		e.chanInv(st, fr, x.X, v, false, x)
	}
	if x.CommaOk {
		ok := FreshVar("recv_ok", BoolSort)
		return Val{x.Type(), append(append([]*Term{}, v.L...), ok)}
	}
	return v
}

func (e *Engine) selectInstr(st *State, fr *Frame, x *ssa.Select) {
	// every case may fire (nondeterministic); blocking select without default: some case fires
	n := len(x.States)
	total := n
	if !x.Blocking {
		total++
	}
	tp := x.Type().(*types.Tuple)
	mk := func(s *State, idx int) {
		f := s.top()
		L := []*Term{}
		if idx < n {
			L = append(L, BVConst(uint64(idx), 64))
		} else {
			L = append(L, BVConst(^uint64(0), 64))
		}
		L = append(L, FreshVar("recvOk", BoolSort))
		ri := 0
		for i := 2; i < tp.Len(); i++ {
			v := freshVal(tp.At(i).Type(), "selrecv")
			s.assumeRefsOld(v)
			L = append(L, v.L...)
			// the i-th received value belongs to the i-th receive state
			for ; ri < n; ri++ {
				if x.States[ri].Dir == types.RecvOnly {
					if ri == idx {
						e.chanInv(s, f, x.States[ri].Chan, v, false, x)
					}
					ri++
					break
				}
			}
		}
		if idx < n && x.States[idx].Dir == types.SendOnly {
			e.chanSend(s, e.val(s, f, x.States[idx].Chan), e.val(s, f, x.States[idx].Send), x)
		}
		f.regs[x] = Val{x.Type(), L}
		s.trace = append(s.trace, fmt.Sprintf("select:%d", idx))
	}
	for i := 1; i < total; i++ {
		o := st.clone()
		func() {
			defer func() {
				if r := recover(); r != nil {
					if _, ok := r.(pathEnd); ok {
						o.dead = true
						return
					}
					panic(r)
				}
			}()
			mk(o, i)
		}()
		if !o.dead {
			e.work = append(e.work, o)
		}
	}
	mk(st, 0)
}

// pristineBase: the array is a chain of stores over the initial heap, where memory at references allocated later
// reads as zero; no explicit zero-initialisation of a new object is needed.
func pristineBase(a *Term) bool {
	for a.Op == OStore {
		a = a.Args[0]
	}
	return a.Op == OVar && strings.HasPrefix(a.Name, "H0|")
}

func lfnp(s string) string {
	if s == "" {
		return ""
	}
	return "@" + s + "."
}

func pcHasQuant(st *State) bool {
	for _, p := range st.pc {
		if hasQuant(p) {
			return true
		}
	}
	return false
}

// writtenFreeVars: indexes of the captured variables a closure assigns to directly (a Store through the capture
// pointer), in its own body or in a closure nested in it.
func writtenFreeVars(fn *ssa.Function, seen map[*ssa.Function]bool) map[int]bool {
	out := map[int]bool{}
	if seen[fn] {
		return out
	}
	seen[fn] = true
	idx := map[ssa.Value]int{}
	for i, fv := range fn.FreeVars {
		idx[fv] = i
	}
	for _, b := range fn.Blocks {
		for _, in := range b.Instrs {
			switch x := in.(type) {
			case *ssa.Store:
				if i, ok := idx[x.Addr]; ok {
					out[i] = true
				}
				// store into a field of a captured struct
				if fa, ok := x.Addr.(*ssa.FieldAddr); ok {
					if i, ok := idx[fa.X]; ok {
						out[i] = true
					}
				}
			case *ssa.MakeClosure:
				if nfn, ok := x.Fn.(*ssa.Function); ok {
					nw := writtenFreeVars(nfn, seen)
					for j, bnd := range x.Bindings {
						if nw[j] {
							if i, ok := idx[bnd]; ok {
								out[i] = true
							}
						}
					}
				}
			}
		}
	}
	return out
}
