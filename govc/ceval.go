package main

// Evaluation of contract expressions against a symbolic state.

import (
	"sort"
	"os"
	"fmt"
	"go/ast"
	"go/constant"
	"go/types"
	"math/big"
	"strings"

	"golang.org/x/tools/go/ssa"
)

type evalCtx struct {
	e      *Engine
	st     *State
	old    *State
	env    map[string]Val
	pkg    *types.Package
	fr     *Frame
	at     *ssa.BasicBlock
	qdepth int
	inOld  bool   // evaluating inside old(...): parameters denote their entry values
	freshPool *[]uint64 // caller-side application of a contract: references reserved for freshref(...) in its ensures clauses
	sink   *State // live state that receives definitional facts about fresh results of contract calls inside pure evaluation
}

var untypedInt = types.Typ[types.UntypedInt]

func (c *evalCtx) with(name string, v Val) *evalCtx {
	n := *c
	n.env = make(map[string]Val, len(c.env)+1)
	for k, x := range c.env {
		n.env[k] = x
	}
	n.env[name] = v
	return &n
}

func (e *Engine) evalBool(c *evalCtx, x Expr) *Term {
	v := e.eval(c, x)
	if len(v.L) != 1 || v.L[0].S != BoolSort {
		panic(fmt.Errorf("contract expression is not boolean: %v", exprString(x)))
	}
	return v.L[0]
}

func exprString(x Expr) string { return fmt.Sprintf("%#v", x) }

var ghostTypes = map[string]string{}

func (e *Engine) eval(c *evalCtx, x Expr) Val {
	switch n := x.(type) {
	case *EInt:
		return Val{untypedInt, []*Term{BVConst(n.V, 64)}}
	case *EFloat:
		r, ok := new(big.Rat).SetString(n.S)
		if !ok {
			panic(fmt.Errorf("bad float %s", n.S))
		}
		return Val{types.Typ[types.Float64], []*Term{RealConst(r)}}
	case *EStr:
		return Val{types.Typ[types.String], []*Term{strLit(n.S)}}
	case *EIdent:
		return e.evalIdent(c, n.Name)
	case *EUnary:
		switch n.Op {
		case "()":
			return e.eval(c, n.X)
		case "!":
			return boolVal(Not(e.evalBool(c, n.X)))
		case "-":
			v := e.eval(c, n.X)
			if isFloat(v.T) {
				return Val{v.T, []*Term{RNeg(v.t())}}
			}
			return Val{v.T, []*Term{Neg(v.t())}}
		case "^":
			v := e.eval(c, n.X)
			return Val{v.T, []*Term{BNot(v.t())}}
		case "*":
			v := e.eval(c, n.X)
			return c.st.loadAt(ptrInfo(v), deref(v.T))
		case "&":
			pi, T := e.evalAddr(c, n.X)
			_ = T
			return mkPtr(pi)
		}
	case *EBinary:
		return e.evalBinary(c, n)
	case *ECond:
		cond := e.evalBool(c, n.C)
		a, b := e.eval(c, n.A), e.eval(c, n.B)
		a, b = unify(a, b)
		L := make([]*Term, len(a.L))
		for i := range a.L {
			L[i] = Ite(cond, a.L[i], b.L[i])
		}
		return Val{a.T, L}
	case *ESel:
		return e.evalSel(c, n)
	case *EIndex:
		return e.evalIndex(c, n)
	case *ESlice:
		b := e.eval(c, n.X)
		lo := BVConst(0, 64)
		if n.Lo != nil {
			lo = toWidth(e.eval(c, n.Lo).t(), 64, false)
		}
		hi := b.sLen()
		if n.Hi != nil {
			hi = toWidth(e.eval(c, n.Hi).t(), 64, false)
		}
		return mkSlice(b.T, b.sRef(), Add(b.sOff(), lo), Sub(hi, lo), Sub(b.sCap(), lo))
	case *ECall:
		return e.evalCall(c, n)
	case *EQuant:
		nc := c
		var bnd []*Term
		var qvars []qVar
		for _, v := range n.Vars {
			T := e.resolveType(v.Type, c.pkg)
			if T == nil {
				panic(fmt.Errorf("unknown type %s in quantifier", v.Type))
			}
			ss := leafSorts(T)
			L := make([]*Term, len(ss))
			for i, srt := range ss {
				nm := v.Name
				if len(ss) > 1 {
					nm = fmt.Sprintf("%s_%d", v.Name, i)
				}
				L[i] = BoundCanon(nm, c.qdepth, srt)
				bnd = append(bnd, L[i])
			}
			qvars = append(qvars, qVar{v.Name, T, L})
			nc = nc.with(v.Name, Val{T, L})
		}
		nc.qdepth = c.qdepth + 1
		body := e.evalBool(nc, n.Body)
		if n.Forall {
			q := Forall(bnd, body)
			if q.Op == OForall {
				quantInfo[q] = &qInfo{Vars: qvars, Body: body}
			}
			return boolVal(q)
		}
		q := Exists(bnd, body)
		if q.Op == OExists {
			quantInfo[q] = &qInfo{Vars: qvars, Body: body}
		}
		return boolVal(q)
	case *ETypeAssert:
		v := e.eval(c, n.X)
		T := e.resolveType(n.T, c.pkg)
		if T == nil {
			panic(fmt.Errorf("unknown type %s", n.T))
		}
		return e.unbox(c.st, v, T)
	case *EType:
		if strings.HasPrefix(n.T, "*") {
			// *x where x is a variable: dereference
			if ex, err := parseExpr(n.T[1:]); err == nil {
				if v, err2 := e.tryEval(c, ex); err2 == nil && isPointer(v.T) {
					return c.st.loadAt(ptrInfo(v), deref(v.T))
				}
			}
		}
		panic(fmt.Errorf("type expression %s used as value", n.T))
	}
	panic(fmt.Errorf("cannot evaluate %T", x))
}

func unify(a, b Val) (Val, Val) {
	if a.T == untypedInt && b.T != untypedInt && len(b.L) == 1 && b.L[0].S.Kind == SBV {
		return Val{b.T, []*Term{toWidth(a.t(), b.t().S.W, false)}}, b
	}
	if b.T == untypedInt && a.T != untypedInt && len(a.L) == 1 && a.L[0].S.Kind == SBV {
		return a, Val{a.T, []*Term{toWidth(b.t(), a.t().S.W, false)}}
	}
	if a.T == untypedInt && isFloat(b.T) {
		return Val{b.T, []*Term{RealConst(new(big.Rat).SetInt(new(big.Int).SetUint64(a.t().Val)))}}, b
	}
	if b.T == untypedInt && isFloat(a.T) {
		return a, Val{a.T, []*Term{RealConst(new(big.Rat).SetInt(new(big.Int).SetUint64(b.t().Val)))}}
	}
	if len(a.L) == 1 && len(b.L) == 1 && a.L[0].S.Kind == SBV && b.L[0].S.Kind == SBV && a.L[0].S != b.L[0].S {
		// lenient: widen the narrower operand
		if a.L[0].S.W < b.L[0].S.W {
			return Val{b.T, []*Term{toWidth(a.t(), b.t().S.W, isSigned(a.T))}}, b
		}
		return a, Val{a.T, []*Term{toWidth(b.t(), a.t().S.W, isSigned(b.T))}}
	}
	// nil adaptation
	if id, ok := a.T.(*types.Basic); ok && id.Kind() == types.UntypedNil {
		return zeroVal(b.T), b
	}
	if id, ok := b.T.(*types.Basic); ok && id.Kind() == types.UntypedNil {
		return a, zeroVal(a.T)
	}
	return a, b
}

func (e *Engine) evalBinary(c *evalCtx, n *EBinary) Val {
	switch n.Op {
	case "&&":
		return boolVal(And(e.evalBool(c, n.X), e.evalBool(c, n.Y)))
	case "||":
		return boolVal(Or(e.evalBool(c, n.X), e.evalBool(c, n.Y)))
	case "==>":
		// lazy: a consequent that mentions variables not yet defined on this path is not evaluated when the
		// antecedent is false here (syntactically, or by the path condition)
		a := e.evalBool(c, n.X)
		if a.IsFalse() || (!a.hasBound && c.st.knows(Not(a))) {
			return boolVal(True)
		}
		return boolVal(Implies(a, e.evalBool(c, n.Y)))
	case "<==>":
		return boolVal(Eq(e.evalBool(c, n.X), e.evalBool(c, n.Y)))
	}
	a, b := e.eval(c, n.X), e.eval(c, n.Y)
	a, b = unify(a, b)
	tok, ok := tokOf[n.Op]
	if !ok {
		panic(fmt.Errorf("operator %s", n.Op))
	}
	T := a.T
	switch n.Op {
	case "==", "!=", "<", "<=", ">", ">=":
		T = types.Typ[types.Bool]
	}
	return e.binop(c.st, tok, a, b, T, nil)
}

func (e *Engine) evalIdent(c *evalCtx, name string) Val {
	switch name {
	case "true":
		return boolVal(True)
	case "false":
		return boolVal(False)
	case "nil":
		return Val{types.Typ[types.UntypedNil], []*Term{BVConst(0, 64)}}
	}
	if c.fr != nil && !c.fr.isTop {
		// inlined frame: its own variables shadow the names of the function under verification
		if v, ok := e.lookupVar(c.st, c.fr, name, c.at); ok {
			return v
		}
	}
	if c.fr != nil && c.at != nil && !c.inOld {
		// a parameter that is reassigned in a loop: at a program point inside (or at the head of) the loop its name
		// denotes the loop-carried value (phi), not the entry value bound in the environment
		if _, isEnv := c.env[name]; isEnv {
			for _, p := range c.fr.fn.Params {
				if p.Name() != name {
					continue
				}
				var best *ssa.Phi
				for _, b := range c.fr.fn.Blocks {
					if !(b == c.at || b.Dominates(c.at)) {
						continue
					}
					for _, in := range b.Instrs {
						ph, ok := in.(*ssa.Phi)
						if !ok {
							break
						}
						if ph.Comment != name {
							continue
						}
						if _, have := c.fr.regs[ph]; !have {
							continue
						}
						if best == nil || best.Block().Dominates(b) {
							best = ph
						}
					}
				}
				if best != nil {
					return c.fr.regs[best]
				}
			}
		}
	}
	if c.fr != nil && c.fr.isTop && !c.inOld {
		// at a program point (loop invariant, atcall): an address-taken parameter has a current value that may differ
		// from its entry value bound in the environment
		for _, p := range c.fr.fn.Params {
			if p.Name() != name {
				continue
			}
			for v, r := range c.fr.regs {
				if a, ok := v.(*ssa.Alloc); ok && a.Comment == name && a.Parent() == c.fr.fn {
					return c.st.loadAt(ptrInfo(r), deref(r.T))
				}
			}
		}
	}
	if v, ok := c.env[name]; ok {
		return v
	}
	// captured variable of a closure under contract: read through the capture pointer in the state being evaluated
	if p, ok := c.env["&"+name]; ok {
		if isPointer(p.T) {
			return c.st.loadAt(ptrInfo(p), deref(p.T))
		}
		return p
	}
	if v, ok := c.st.ghost[name]; ok {
		return v
	}
	if c.fr != nil {
		if v, ok := e.lookupVar(c.st, c.fr, name, c.at); ok {
			return v
		}
		// variables of the calling frames (loops of inlined callees annotated by the function under verification)
		for i := len(c.st.stack) - 1; i >= 0; i-- {
			f := c.st.stack[i]
			if f == c.fr {
				continue
			}
			if v, ok := e.lookupVar(c.st, f, name, nil); ok {
				return v
			}
		}
	}
	// package-level constant / var
	if c.pkg != nil {
		if obj := c.pkg.Scope().Lookup(name); obj != nil {
			return e.objVal(c, obj)
		}
	}
	// a local that was renamed since the contract was written (same function shape, see shape.go)
	if nn, ok := e.rename[name]; ok && nn != name {
		return e.evalIdent(c, nn)
	}
	panic(fmt.Errorf("unknown identifier %q in contract", name))
}

func (e *Engine) objVal(c *evalCtx, obj types.Object) Val {
	switch o := obj.(type) {
	case *types.Const:
		return e.constOf(o.Val(), o.Type())
	case *types.Var:
		// package-level variable: load from its global
		sp := e.prog.Package(o.Pkg())
		if sp != nil {
			if g, ok := sp.Members[o.Name()].(*ssa.Global); ok {
				pi := &PtrInfo{Ref: globalRef(g), Root: rootName(o.Type()), Elem: o.Type()}
				return c.st.loadAt(pi, o.Type())
			}
		}
	}
	panic(fmt.Errorf("identifier %s is not a constant or variable", obj.Name()))
}

func (e *Engine) constOf(v constant.Value, T types.Type) Val {
	switch u := T.Underlying().(type) {
	case *types.Basic:
		switch {
		case u.Info()&types.IsBoolean != 0:
			return boolVal(BoolConst(constant.BoolVal(v)))
		case u.Info()&types.IsInteger != 0:
			w := 64
			if u.Kind() != types.UntypedInt && u.Kind() != types.UntypedRune {
				w = basicSort(u).W
			}
			if i, ok := constant.Int64Val(v); ok {
				return Val{T, []*Term{BVConst(uint64(i), w)}}
			}
			uv, _ := constant.Uint64Val(v)
			return Val{T, []*Term{BVConst(uv, w)}}
		case u.Info()&types.IsFloat != 0:
			return Val{T, []*Term{RealConst(constToRat(v))}}
		case u.Info()&types.IsString != 0:
			return Val{T, []*Term{strLit(constant.StringVal(v))}}
		}
	}
	panic(fmt.Errorf("constant of type %s", typeName(T)))
}

// lookupVar resolves a source-level local variable name to its current SSA value.
func (e *Engine) lookupVar(st *State, fr *Frame, name string, at *ssa.BasicBlock) (Val, bool) {
	fn := fr.fn
	for _, p := range fn.Params {
		if p.Name() == name {
			if v, ok := fr.regs[p]; ok {
				return v, true
			}
		}
	}
	if fr.closure != nil {
		for i, fv := range fn.FreeVars {
			if fv.Name() == name {
				v := fr.closure.Bind[i]
				// free variables are pointers to the captured variable
				if isPointer(v.T) {
					return st.loadAt(ptrInfo(v), deref(v.T)), true
				}
				return v, true
			}
		}
	}
	if at != nil {
		for _, in := range at.Instrs {
			if p, ok := in.(*ssa.Phi); ok {
				if p.Comment == name {
					if v, ok := fr.regs[p]; ok {
						return v, true
					}
				}
			} else {
				break
			}
		}
	}
	// phi of an enclosing loop: the closest dominating block that has a phi for this variable
	if at != nil {
		var bestPhi *ssa.Phi
		for _, b := range fn.Blocks {
			if b == at || !b.Dominates(at) {
				continue
			}
			for _, in := range b.Instrs {
				p, ok := in.(*ssa.Phi)
				if !ok {
					break
				}
				if p.Comment != name {
					continue
				}
				if _, have := fr.regs[p]; !have {
					continue
				}
				if bestPhi == nil || bestPhi.Block().Dominates(b) {
					bestPhi = p
				}
			}
		}
		if bestPhi != nil {
			// a later plain definition that dominates `at` and is dominated by the phi's block wins (handled below by
			// the DebugRef search) only if it is not a constant initialiser
			phiVal := fr.regs[bestPhi]
			var later *ssa.DebugRef
			for _, b := range fn.Blocks {
				if !(b == at || b.Dominates(at)) || !bestPhi.Block().Dominates(b) || b == bestPhi.Block() {
					continue
				}
				for _, in := range b.Instrs {
					d, ok := in.(*ssa.DebugRef)
					if !ok || d.IsAddr {
						continue
					}
					id, ok := d.Expr.(*ast.Ident)
					if !ok || id.Name != name {
						continue
					}
					if _, isConst := d.X.(*ssa.Const); isConst {
						continue
					}
					if _, have := fr.regs[d.X]; have {
						later = d
					}
				}
			}
			if later == nil {
				return phiVal, true
			}
		}
	}
	// an address-taken local lives in an Alloc carrying its name: its current value is the content of that cell (a
	// DebugRef of the declaration would give the initial value only)
	{
		var bestA *ssa.Alloc
		for v := range fr.regs {
			a, ok := v.(*ssa.Alloc)
			if !ok || a.Comment != name || a.Parent() != fn {
				continue
			}
			if at != nil && !(a.Block() == at || a.Block().Dominates(at)) {
				continue
			}
			if bestA == nil || bestA.Block().Dominates(a.Block()) {
				bestA = a
			}
		}
		if bestA != nil {
			r := fr.regs[bestA]
			return st.loadAt(ptrInfo(r), deref(r.T)), true
		}
	}
	// DebugRefs: choose the dominating definition closest to `at`
	var best *ssa.DebugRef
	for _, b := range fn.Blocks {
		for _, in := range b.Instrs {
			d, ok := in.(*ssa.DebugRef)
			if !ok {
				continue
			}
			id, ok := d.Expr.(*ast.Ident)
			if !ok || id.Name != name {
				continue
			}
			if _, have := fr.regs[d.X]; !have {
				if _, isConst := d.X.(*ssa.Const); !isConst {
					continue
				}
			}
			if at != nil && !(b == at || b.Dominates(at)) {
				continue
			}
			if best == nil || best.Block().Dominates(b) {
				// a zero-value constant recorded for the declaration must not shadow the variable's real definition
				if _, isConst := d.X.(*ssa.Const); isConst && best != nil {
					if _, bestConst := best.X.(*ssa.Const); !bestConst {
						continue
					}
				}
				best = d
			}
		}
	}
	if best != nil {
		if _, isConst := best.X.(*ssa.Const); isConst {
			// The declaration's debug record may carry only the zero value; a later use of the variable records the
			// real SSA value. Use it if that value is already defined on every path to this point.
			for _, b := range fn.Blocks {
				for _, in := range b.Instrs {
					d, ok := in.(*ssa.DebugRef)
					if !ok || d.IsAddr {
						continue
					}
					id, ok := d.Expr.(*ast.Ident)
					if !ok || id.Name != name {
						continue
					}
					def, isInstr := d.X.(ssa.Instruction)
					if !isInstr {
						continue
					}
					if _, isPhi := d.X.(*ssa.Phi); isPhi {
						continue
					}
					if _, have := fr.regs[d.X]; !have {
						continue
					}
					if at != nil && !(def.Block() == at || def.Block().Dominates(at)) {
						continue
					}
					return e.val(st, fr, d.X), true
				}
			}
		}
		v := e.val(st, fr, best.X)
		if os.Getenv("GOVC_DEBUG") != "" {
			fmt.Printf("  lookupVar %s -> %s = %v (isAddr %v)\n", name, best.X.Name(), v.L, best.IsAddr)
		}
		if best.IsAddr {
			return st.loadAt(ptrInfo(v), deref(v.T)), true
		}
		return v, true
	}
	// address-taken locals and named results live in an Alloc carrying the variable's name
	for v, r := range fr.regs {
		if a, ok := v.(*ssa.Alloc); ok && a.Comment == name {
			return st.loadAt(ptrInfo(r), deref(r.T)), true
		}
	}
	// any value already computed whose debug name matches (outside dominance, e.g. defined in loop pre-header chain)
	for _, b := range fn.Blocks {
		for _, in := range b.Instrs {
			d, ok := in.(*ssa.DebugRef)
			if !ok {
				continue
			}
			id, ok := d.Expr.(*ast.Ident)
			if !ok || id.Name != name {
				continue
			}
			if v, have := fr.regs[d.X]; have {
				if d.IsAddr {
					return st.loadAt(ptrInfo(v), deref(v.T)), true
				}
				return v, true
			}
		}
	}
	return Val{}, false
}

func (e *Engine) evalSel(c *evalCtx, n *ESel) Val {
	// package-qualified identifier
	if id, ok := n.X.(*EIdent); ok {
		if _, bound := c.env[id.Name]; !bound {
			if p := e.findPkg(id.Name, c.pkg); p != nil {
				if obj := p.Scope().Lookup(n.Name); obj != nil {
					return e.objVal(c, obj)
				}
				panic(fmt.Errorf("unknown %s.%s", id.Name, n.Name))
			}
		}
	}
	if strings.HasPrefix(n.Name, "$") {
		return e.ghostField(c, e.eval(c, n.X), n.Name, nil)
	}
	base := e.eval(c, n.X)
	return e.selectField(c, base, n.Name)
}

func (e *Engine) selectField(c *evalCtx, base Val, name string) Val {
	T := base.T
	if p, ok := T.Underlying().(*types.Pointer); ok {
		// auto-deref
		stT, ok := p.Elem().Underlying().(*types.Struct)
		if !ok {
			panic(fmt.Errorf("field %s of non-struct pointer %s", name, typeName(T)))
		}
		for i := 0; i < stT.NumFields(); i++ {
			if stT.Field(i).Name() == name {
				pi := ptrInfo(base)
				return c.st.loadAt(pi.field(name, stT.Field(i).Type()), stT.Field(i).Type())
			}
		}
		if path := embeddedPath(p.Elem(), name); len(path) > 1 {
			v := base
			for _, f := range path {
				v = e.selectField(c, v, f)
			}
			return v
		}
		panic(fmt.Errorf("no field %s in %s", name, typeName(p.Elem())))
	}
	if stT, ok := T.Underlying().(*types.Struct); ok {
		for i := 0; i < stT.NumFields(); i++ {
			if stT.Field(i).Name() == name {
				return base.field(i)
			}
		}
		if path := embeddedPath(T, name); len(path) > 1 {
			v := base
			for _, f := range path {
				v = e.selectField(c, v, f)
			}
			return v
		}
		panic(fmt.Errorf("no field %s in %s", name, typeName(T)))
	}
	panic(fmt.Errorf("selector .%s on %s", name, typeName(T)))
}

// ghostField reads (or with set != nil writes) a ghost field attached to a reference-like value.
func (e *Engine) ghostField(c *evalCtx, base Val, name string, set *Val) Val {
	tyName, ok := ghostTypes[name]
	if !ok {
		panic(fmt.Errorf("undeclared ghost field %s", name))
	}
	T := e.resolveType(tyName, c.pkg)
	var ref *Term
	switch base.T.Underlying().(type) {
	case *types.Interface:
		ref = base.iPl()
	case *types.Slice:
		ref = base.sRef()
	default:
		ref = toWidth(base.L[0], 64, false)
	}
	pi := &PtrInfo{Ref: ref, Root: "ghost" + name, Elem: T}
	if set != nil {
		c.st.storeAt(pi, *set)
		return *set
	}
	return c.st.loadAt(pi, T)
}

func (e *Engine) evalIndex(c *evalCtx, n *EIndex) Val {
	base := e.eval(c, n.X)
	iv := e.eval(c, n.I)
	switch u := base.T.Underlying().(type) {
	case *types.Slice:
		i := toWidth(iv.t(), 64, isSigned(iv.T))
		return c.st.loadAt(e.elemPI(base, i), u.Elem())
	case *types.Array:
		i := toWidth(iv.t(), 64, false)
		if i.Op == OConst {
			return base.arrayElem(int(i.Val))
		}
		nl := len(leafSorts(u.Elem()))
		L := make([]*Term, nl)
		for j := 0; j < nl; j++ {
			t := base.L[j]
			for k := int64(1); k < u.Len(); k++ {
				t = Ite(Eq(i, BVConst(uint64(k), 64)), base.L[int(k)*nl+j], t)
			}
			L[j] = t
		}
		return Val{u.Elem(), L}
	case *types.Map:
		k := iv
		kt := u.Key()
		if k.T == untypedInt {
			k, _ = unify(k, zeroVal(kt))
		}
		k.T = kt
		v, _ := e.mapLoad(c.st, base, k)
		return v
	case *types.Pointer:
		if at, ok := u.Elem().Underlying().(*types.Array); ok {
			i := toWidth(iv.t(), 64, false)
			pi := ptrInfo(base)
			if len(pi.Path) == 0 && pi.Root == arrRoot(at.Elem()) {
				return c.st.loadAt(&PtrInfo{Ref: pi.Ref, Root: pi.Root, Path: []Step{{Idx: i}}, Elem: at.Elem()}, at.Elem())
			}
			return c.st.loadAt(pi.index(i, at.Elem()), at.Elem())
		}
	case *types.Basic:
		if isString(base.T) {
			return Val{types.Typ[types.Uint8], []*Term{App("strbyte", BV(8), base.t(), toWidth(iv.t(), 64, false))}}
		}
	}
	panic(fmt.Errorf("index on %s", typeName(base.T)))
}

// evalAddr evaluates an lvalue expression to a location.
func (e *Engine) evalAddr(c *evalCtx, x Expr) (*PtrInfo, types.Type) {
	switch n := x.(type) {
	case *EType:
		if strings.HasPrefix(n.T, "*") {
			if ex, err := parseExpr(n.T[1:]); err == nil {
				if v, err2 := e.tryEval(c, ex); err2 == nil && isPointer(v.T) {
					return ptrInfo(v), deref(v.T)
				}
			}
		}
	case *EUnary:
		if n.Op == "*" {
			v := e.eval(c, n.X)
			return ptrInfo(v), deref(v.T)
		}
		if n.Op == "()" {
			return e.evalAddr(c, n.X)
		}
	case *ESel:
		if !strings.HasPrefix(n.Name, "$") {
			// promoted field of an embedded struct: rewrite x.f to x.E1...Ek.f
			if bv, err := e.tryEval(c, n.X); err == nil {
				BT := bv.T
				if p, ok := BT.Underlying().(*types.Pointer); ok {
					BT = p.Elem()
				}
				if path := embeddedPath(BT, n.Name); len(path) > 1 {
					var x Expr = n.X
					for _, f := range path {
						x = &ESel{X: x, Name: f}
					}
					return e.evalAddr(c, x)
				}
			}
		}
		if strings.HasPrefix(n.Name, "$") {
			base := e.eval(c, n.X)
			T := e.resolveType(ghostTypes[n.Name], c.pkg)
			var ref *Term
			switch base.T.Underlying().(type) {
			case *types.Interface:
				ref = base.iPl()
			case *types.Slice:
				ref = base.sRef()
			default:
				ref = toWidth(base.L[0], 64, false)
			}
			return &PtrInfo{Ref: ref, Root: "ghost" + n.Name, Elem: T}, T
		}
		// base is pointer (auto-deref) or addressable struct
		bv, err := e.tryEval(c, n.X)
		if err == nil {
			if p, ok := bv.T.Underlying().(*types.Pointer); ok {
				stT := p.Elem().Underlying().(*types.Struct)
				for i := 0; i < stT.NumFields(); i++ {
					if stT.Field(i).Name() == n.Name {
						return ptrInfo(bv).field(n.Name, stT.Field(i).Type()), stT.Field(i).Type()
					}
				}
				panic(fmt.Errorf("no field %s", n.Name))
			}
		}
		pi, T := e.evalAddr(c, n.X)
		stT, ok := T.Underlying().(*types.Struct)
		if !ok {
			panic(fmt.Errorf("field address of non-struct"))
		}
		for i := 0; i < stT.NumFields(); i++ {
			if stT.Field(i).Name() == n.Name {
				return pi.field(n.Name, stT.Field(i).Type()), stT.Field(i).Type()
			}
		}
	case *EIndex:
		base := e.eval(c, n.X)
		i := toWidth(e.eval(c, n.I).t(), 64, false)
		if sl, ok := base.T.Underlying().(*types.Slice); ok {
			return e.elemPI(base, i), sl.Elem()
		}
	}
	panic(fmt.Errorf("not an addressable location: %s", exprString(x)))
}

func (e *Engine) tryEval(c *evalCtx, x Expr) (v Val, err error) {
	defer func() {
		if r := recover(); r != nil {
			if er, ok := r.(error); ok {
				if _, isU := er.(unsupportedErr); !isU {
					err = er
					return
				}
			}
			panic(r)
		}
	}()
	v = e.eval(c, x)
	return
}

func (e *Engine) findPkg(name string, from *types.Package) *types.Package {
	if from != nil {
		for _, imp := range from.Imports() {
			if imp.Name() == name {
				return imp
			}
		}
		if from.Name() == name {
			return from
		}
	}
	for _, p := range e.prog.AllPackages() {
		if p.Pkg.Name() == name {
			return p.Pkg
		}
	}
	return nil
}

// resolveType parses a type expression: int, uint64, bool, string, T, *T, []T, pkg.T
func (e *Engine) resolveType(s string, pkg *types.Package) types.Type {
	s = strings.TrimSpace(s)
	if strings.HasPrefix(s, "*") {
		t := e.resolveType(s[1:], pkg)
		if t == nil {
			return nil
		}
		return types.NewPointer(t)
	}
	if strings.HasPrefix(s, "[]") {
		t := e.resolveType(s[2:], pkg)
		if t == nil {
			return nil
		}
		return types.NewSlice(t)
	}
	if s == "interface{}" {
		return types.NewInterfaceType(nil, nil)
	}
	if strings.HasPrefix(s, "map[") {
		depth := 0
		for i := 3; i < len(s); i++ {
			if s[i] == '[' {
				depth++
			} else if s[i] == ']' {
				depth--
				if depth == 0 {
					k := e.resolveType(s[4:i], pkg)
					v := e.resolveType(s[i+1:], pkg)
					if k == nil || v == nil {
						return nil
					}
					return types.NewMap(k, v)
				}
			}
		}
		return nil
	}
	if obj := types.Universe.Lookup(s); obj != nil {
		if tn, ok := obj.(*types.TypeName); ok {
			return tn.Type()
		}
	}
	if i := strings.Index(s, "."); i >= 0 {
		p := e.findPkg(s[:i], pkg)
		if p == nil {
			return nil
		}
		if obj := p.Scope().Lookup(s[i+1:]); obj != nil {
			if tn, ok := obj.(*types.TypeName); ok {
				return tn.Type()
			}
		}
		return nil
	}
	if pkg != nil {
		if obj := pkg.Scope().Lookup(s); obj != nil {
			if tn, ok := obj.(*types.TypeName); ok {
				return tn.Type()
			}
		}
	}
	return nil
}

func (e *Engine) evalCall(c *evalCtx, n *ECall) Val {
	// builtin spec functions
	if id, ok := n.Fun.(*EIdent); ok {
		switch id.Name {
		case "old":
			if c.old == nil {
				return e.eval(c, n.Args[0])
			}
			oc := *c
			oc.st = c.old
			oc.old = nil
			oc.inOld = true
			if oc.sink == nil {
				oc.sink = c.st
			}
			return e.eval(&oc, n.Args[0])
		case "len":
			v := e.eval(c, n.Args[0])
			switch v.T.Underlying().(type) {
			case *types.Slice:
				return Val{types.Typ[types.Int], []*Term{v.sLen()}}
			case *types.Map:
				root := mapRoot(v.T)
				return Val{types.Typ[types.Int], []*Term{c.st.loadLeaf(root+"|len", []*Term{v.t()}, Ref64)}}
			case *types.Array:
				return Val{types.Typ[types.Int], []*Term{BVConst(uint64(v.T.Underlying().(*types.Array).Len()), 64)}}
			}
			if isString(v.T) {
				return Val{types.Typ[types.Int], []*Term{strLen(v.t())}}
			}
			panic(fmt.Errorf("len of %s", typeName(v.T)))
		case "cap":
			v := e.eval(c, n.Args[0])
			return Val{types.Typ[types.Int], []*Term{v.sCap()}}
		case "has":
			m := e.eval(c, n.Args[0])
			k := e.eval(c, n.Args[1])
			kt := m.T.Underlying().(*types.Map).Key()
			if k.T == untypedInt {
				k, _ = unify(k, zeroVal(kt))
			}
			k.T = kt
			_, has := e.mapLoad(c.st, m, k)
			return boolVal(has)
		case "is":
			v := e.eval(c, n.Args[0])
			ty, ok := n.Args[1].(*EType)
			var tn string
			if ok {
				tn = ty.T
			} else if id2, ok := n.Args[1].(*EIdent); ok {
				tn = id2.Name
			} else if sel, ok := n.Args[1].(*ESel); ok {
				tn = sel.X.(*EIdent).Name + "." + sel.Name
			}
			T := e.resolveType(tn, c.pkg)
			if T == nil {
				panic(fmt.Errorf("unknown type %q", tn))
			}
			return boolVal(Eq(v.iTag(), typeTag(T)))
		case "beUint":
			// big-endian value of the bytes of a slice (constant length <= 8 on this path), zero-extended to 64 bits
			d := e.eval(c, n.Args[0])
			ln := d.sLen()
			if len(n.Args) > 1 {
				ln = toWidth(e.eval(c, n.Args[1]).t(), 64, false)
			}
			if ln.Op != OConst || ln.Val > 8 {
				return Val{types.Typ[types.Uint64], []*Term{App("beUint", Ref64, c.st.cellArr(arrRoot(types.Typ[types.Uint8])+"|[]", 2, BV(8)), d.sRef(), d.sOff(), ln)}}
			}
			v := BVConst(0, 64)
			for i := uint64(0); i < ln.Val; i++ {
				b := c.st.loadLeaf(arrRoot(types.Typ[types.Uint8])+"|[]", []*Term{d.sRef(), Add(d.sOff(), BVConst(i, 64))}, BV(8))
				v = BOr(Shl(v, BVConst(8, 64)), ZExt(b, 64))
			}
			return Val{types.Typ[types.Uint64], []*Term{v}}
		case "crcOverZeroed":
			// crcOverZeroed(crcType, stream, from, to): checksum (as specified by crcType: 1 = CRC-16/X-25, 2 = CRC-32C)
			// of the tokens stream[from..to) where the last token -- the CRC byte string -- is replaced by zero bytes.
			ty := toWidth(e.eval(c, n.Args[0]).t(), 64, false)
			s := e.resolveAlias(c.st, streamRef(e.eval(c, n.Args[1])))
			from := toWidth(e.eval(c, n.Args[2]).t(), 64, false)
			to := toWidth(e.eval(c, n.Args[3]).t(), 64, false)
			seq := e.tokSeq(c.st, s, from, Sub(to, BVConst(1, 64)))
			seqS := UnSort("TokSeq")
			k := Ite(Eq(ty, BVConst(1, 64)), BVConst(2, 64), BVConst(4, 64))
			seq = App("tokseq_cons", seqS, seq, BVConst(tkBlk, 8), BVConst(0, 8), k, BVConst(0, 64), BVConst(0, 64))
			v := Ite(Eq(ty, BVConst(1, 64)), ZExt(App("crc16x25_toks", BV(16), seq), 64), ZExt(App("crc32c_toks", BV(32), seq), 64))
			return Val{types.Typ[types.Uint64], []*Term{v}}
		case "bpos", "bend":
			s := e.resolveAlias(c.st, streamRef(e.eval(c, n.Args[0])))
			if id.Name == "bpos" {
				return Val{types.Typ[types.Uint64], []*Term{bsPos(c.st, s)}}
			}
			return Val{types.Typ[types.Uint64], []*Term{bsEnd(c.st, s)}}
		case "bbyte":
			s := e.resolveAlias(c.st, streamRef(e.eval(c, n.Args[0])))
			i := toWidth(e.eval(c, n.Args[1]).t(), 64, false)
			return Val{types.Typ[types.Uint8], []*Term{c.st.loadLeaf("bs|data", []*Term{s, i}, BV(8))}}
		case "freshref":
			// freshref(x): the object x refers to was allocated during the call. Callee side (proof of the ensures
			// clause): its reference lies above the allocation watermark at entry. Caller side (use of the clause): it is
			// a reference reserved at the call, distinct from every object the caller knows.
			v := e.eval(c, n.Args[0])
			r := v.L[0]
			switch v.T.Underlying().(type) {
			case *types.Interface:
				r = v.L[1]
			}
			if c.freshPool != nil {
				if len(*c.freshPool) == 0 {
					panic(fmt.Errorf("freshref: no reserved reference left"))
				}
				R := (*c.freshPool)[0]
				*c.freshPool = (*c.freshPool)[1:]
				return boolVal(Eq(r, BVConst(R, 64)))
			}
			if e.cur == nil || e.cur.entry == nil {
				panic(fmt.Errorf("freshref outside a function proof"))
			}
			return boolVal(Ult(BVConst(e.cur.entry.nextRef, 64), r))
		case "broken":
			// broken(w): every Write on the stream w fails (the meaning of a "broken connection"); the writer model
			// assumes !broken(w) on each successful Write
			s := e.resolveAlias(c.st, streamRef(e.eval(c, n.Args[0])))
			return Val{types.Typ[types.Bool], []*Term{App("uf!broken", BoolSort, s)}}
		case "buflen":
			s := e.resolveAlias(c.st, streamRef(e.eval(c, n.Args[0])))
			return Val{types.Typ[types.Uint64], []*Term{bufLen(c.st, s)}}
		case "ioOK":
			// hypothesis of round-trip behaviours: the underlying reader/writer does not fail
			c.st.ghost["$noioerr"] = boolVal(True)
			return boolVal(True)
		case "rpos", "wpos":
			s := e.resolveAlias(c.st, streamRef(e.eval(c, n.Args[0])))
			if id.Name == "rpos" {
				return Val{types.Typ[types.Uint64], []*Term{rposOf(c.st, s)}}
			}
			return Val{types.Typ[types.Uint64], []*Term{wposOf(c.st, s)}}
		case "tokStr":
			// tokStr(s, p, str): the bytes of a string written by io.WriteString
			s := e.resolveAlias(c.st, streamRef(e.eval(c, n.Args[0])))
			pos := toWidth(e.eval(c, n.Args[1]).t(), 64, false)
			t := e.tokLoad(c.st, s, pos)
			str := e.eval(c, n.Args[2]).t()
			return boolVal(And(Eq(t.kind, BVConst(tkBlk, 8)), Eq(t.m, BVConst(1, 8)), Eq(t.n, strLen(str)), Eq(t.cid, App("strcid", Ref64, str))))
		case "tokHead", "tokRaw", "tokFix", "tokFixLE", "tokBlk", "tokEID", "tokExt", "tokKind", "tokN":
			return e.evalTokPred(c, id.Name, n.Args)
		case "bytesEq":
			a := e.eval(c, n.Args[0])
			b := e.eval(c, n.Args[1])
			r, _ := modelBytesEqual(e, c.st, nil, nil, []Val{a, b}, nil)
			return r
		case "sameSlice":
			a := e.eval(c, n.Args[0])
			b := e.eval(c, n.Args[1])
			return boolVal(And(Eq(a.sLen(), b.sLen()), Or(Eq(a.sLen(), BVConst(0, 64)), And(Eq(a.sRef(), b.sRef()), Eq(a.sOff(), b.sOff())))))
		case "visited":
			// visited(m, k): key k has been produced by the (most recent) range loop over map m
			m := e.eval(c, n.Args[0])
			k := e.eval(c, n.Args[1])
			kt := m.T.Underlying().(*types.Map).Key()
			k.T = kt
			var it *Term
			var names []string
			for gk := range c.st.ghost {
				if strings.HasPrefix(gk, "$iter/") {
					names = append(names, gk)
				}
			}
			sort.Strings(names)
			for _, gk := range names {
				if b := c.st.ghost[gk]; len(b.L) > 0 && b.L[0] == m.t() {
					it = st2term(gk)
				}
			}
			if it == nil {
				return boolVal(False)
			}
			idx := mapIdx(m.t(), e.keyLeaves(c.st, k))
			vidx := append([]*Term{it}, idx[1:]...)
			return boolVal(c.st.loadLeaf(fmt.Sprintf("iter|visited/%d", len(vidx)), vidx, BoolSort))
		case "smhas", "smget":
			return e.evalSyncMapBuiltin(c, id.Name, n.Args)
		case "closed":
			ch := e.eval(c, n.Args[0])
			return boolVal(c.st.loadLeaf("chan|closed", []*Term{ch.t()}, BoolSort))
		case "sent":
			// sent(ch): number of values sent on channel ch so far (ghost log of the sequential channel model)
			ch := e.eval(c, n.Args[0])
			return Val{types.Typ[types.Uint64], []*Term{c.st.loadLeaf("chan|sent", []*Term{ch.t()}, Ref64)}}
		case "closes":
			ch := e.eval(c, n.Args[0])
			return Val{types.Typ[types.Uint64], []*Term{c.st.loadLeaf("chan|closes", []*Term{ch.t()}, Ref64)}}
		case "ite":
			return e.eval(c, &ECond{n.Args[0], n.Args[1], n.Args[2]})
		case "ref":
			v := e.eval(c, n.Args[0])
			switch v.T.Underlying().(type) {
			case *types.Interface:
				return Val{types.Typ[types.Uint64], []*Term{v.iPl()}}
			}
			return Val{types.Typ[types.Uint64], []*Term{v.L[0]}}
		case "isFreshRef":
			v := e.eval(c, n.Args[0])
			return boolVal(BoolConst(isFreshRef(v.L[0])))
		case "uf":
			// uf("name", RetType, args...): uninterpreted function
			name := n.Args[0].(*EStr).S
			var rt string
			switch t := n.Args[1].(type) {
			case *EIdent:
				rt = t.Name
			case *EType:
				rt = t.T
			case *EStr:
				rt = t.S
			case *ESel:
				if id, ok := t.X.(*EIdent); ok {
					rt = id.Name + "." + t.Name
				}
			}
			T := e.resolveType(rt, c.pkg)
			if T == nil {
				panic(fmt.Errorf("uf: unknown type %q", rt))
			}
			var args []*Term
			for _, a := range n.Args[2:] {
				av := e.eval(c, a)
				args = append(args, av.L...)
			}
			ss := leafSorts(T)
			L := make([]*Term, len(ss))
			for i, srt := range ss {
				nm := "uf!" + name
				if len(ss) > 1 {
					nm = fmt.Sprintf("uf!%s#%d", name, i)
				}
				L[i] = App(nm, srt, args...)
			}
			// references named by an uninterpreted function denote objects that existed before the call
			for i, k := range leafKinds(T) {
				if (k == lkRef || k == lkPl) && !L[i].hasBound {
					c.st.assume(Ult(L[i], BVConst(freshRefBase, 64)))
				}
			}
			return Val{T, L}
		}
		// conversions to basic types / named types
		if T := e.resolveType(id.Name, c.pkg); T != nil && len(n.Args) == 1 {
			if _, isFn := c.env[id.Name]; !isFn {
				v := e.eval(c, n.Args[0])
				if v.T == untypedInt {
					v.T = types.Typ[types.Uint64]
				}
				return e.convert(c.st, v, T)
			}
		}
		// spec functions
		if sf := e.cs.Specs[id.Name]; sf != nil {
			return e.callSpec(c, sf, n.Args)
		}
		// package-level Go function
		if c.pkg != nil {
			if sp := e.prog.Package(c.pkg); sp != nil {
				if fn := sp.Func(id.Name); fn != nil {
					var args []Val
					for i, a := range n.Args {
						av := e.eval(c, a)
						av = adaptTo(av, fn.Signature.Params().At(i).Type(), e, c.st)
						args = append(args, av)
					}
					return e.evalPureCall(c, fn, args)
				}
			}
		}
		panic(fmt.Errorf("unknown function %s in contract", id.Name))
	}
	if sel, ok := n.Fun.(*ESel); ok {
		// pkg.Func(...) or pkg.Type(x) or x.Method(...)
		if id, ok := sel.X.(*EIdent); ok {
			if _, bound := c.env[id.Name]; !bound {
				if p := e.findPkg(id.Name, c.pkg); p != nil {
					if T := e.resolveType(id.Name+"."+sel.Name, c.pkg); T != nil && len(n.Args) == 1 {
						v := e.eval(c, n.Args[0])
						if v.T == untypedInt {
							v.T = types.Typ[types.Uint64]
						}
						return e.convert(c.st, v, T)
					}
					if sp := e.prog.Package(p); sp != nil {
						if fn := sp.Func(sel.Name); fn != nil {
							var args []Val
							for i, a := range n.Args {
								av := e.eval(c, a)
								av = adaptTo(av, fn.Signature.Params().At(i).Type(), e, c.st)
								args = append(args, av)
							}
							return e.evalPureCall(c, fn, args)
						}
					}
					panic(fmt.Errorf("unknown function %s.%s", id.Name, sel.Name))
				}
			}
		}
		recv := e.eval(c, sel.X)
		return e.evalMethod(c, recv, sel.Name, n.Args)
	}
	// conversion written with a type literal: []byte(x), map[K]V(x)
	if ty, ok := n.Fun.(*EType); ok && len(n.Args) == 1 {
		if T := e.resolveType(ty.T, c.pkg); T != nil {
			v := e.eval(c, n.Args[0])
			return e.convert(c.st, v, T)
		}
	}
	panic(fmt.Errorf("unsupported call form"))
}

func adaptTo(v Val, T types.Type, e *Engine, st *State) Val {
	if v.T == untypedInt {
		if isFloat(T) {
			return Val{T, []*Term{RealConst(new(big.Rat).SetInt(new(big.Int).SetUint64(v.t().Val)))}}
		}
		ss := leafSorts(T)
		if len(ss) == 1 && ss[0].Kind == SBV {
			return Val{T, []*Term{toWidth(v.t(), ss[0].W, false)}}
		}
	}
	if b, ok := v.T.(*types.Basic); ok && b.Kind() == types.UntypedNil {
		return zeroVal(T)
	}
	if isIface(T) && !isIface(v.T) {
		return e.makeInterface(st, v, T)
	}
	v.T = T
	return v
}

func (e *Engine) evalMethod(c *evalCtx, recv Val, name string, argx []Expr) Val {
	T := recv.T
	// interface receiver: dispatch dynamically through the executor
	var fn *ssa.Function
	var args []Val
	if isIface(T) {
		it := T.Underlying().(*types.Interface)
		var m *types.Func
		for i := 0; i < it.NumMethods(); i++ {
			if it.Method(i).Name() == name {
				m = it.Method(i)
			}
		}
		if m == nil {
			panic(fmt.Errorf("no method %s on %s", name, typeName(T)))
		}
		sig := m.Type().(*types.Signature)
		for i, a := range argx {
			args = append(args, adaptTo(e.eval(c, a), sig.Params().At(i).Type(), e, c.st))
		}
		return e.evalPureInvoke(c, recv, m, args)
	}
	ms := e.prog.MethodSets.MethodSet(T)
	sel := ms.Lookup(nil, name)
	if sel == nil {
		// try pointer receiver on addressable value / pkg-private lookup
		for i := 0; i < ms.Len(); i++ {
			if ms.At(i).Obj().Name() == name {
				sel = ms.At(i)
			}
		}
	}
	if sel == nil && !isPointer(T) {
		// value with pointer-receiver method: not addressable in contracts
		panic(fmt.Errorf("no method %s on %s", name, typeName(T)))
	}
	if sel == nil {
		panic(fmt.Errorf("no method %s on %s", name, typeName(T)))
	}
	fn = e.prog.MethodValue(sel)
	if fn == nil {
		panic(fmt.Errorf("method %s has no body", name))
	}
	args = append(args, recv)
	for i, a := range argx {
		args = append(args, adaptTo(e.eval(c, a), fn.Signature.Params().At(i).Type(), e, c.st))
	}
	return e.evalPureCall(c, fn, args)
}

func (e *Engine) callSpec(c *evalCtx, sf *Contract, argx []Expr) Val {
	if len(argx) != len(sf.Params) {
		panic(fmt.Errorf("spec %s: %d args, want %d", sf.Func, len(argx), len(sf.Params)))
	}
	if c.qdepth > 40 {
		panic(fmt.Errorf("spec %s: recursion too deep (recursive spec functions are not supported)", sf.Func))
	}
	spkg := c.pkg
	if sp := e.pkgByPath(sf.Pkg); sp != nil {
		spkg = sp
	}
	nc := &evalCtx{e: e, st: c.st, old: c.old, env: map[string]Val{}, pkg: spkg, qdepth: c.qdepth + 1}
	for i, p := range sf.Params {
		v := e.eval(c, argx[i])
		if T := e.resolveType(p.Type, spkg); T != nil {
			v = adaptTo(v, T, e, c.st)
		}
		nc.env[p.Name] = v
	}
	r := e.eval(nc, sf.Body)
	if T := e.resolveType(sf.RetType, spkg); T != nil {
		r = adaptTo(r, T, e, c.st)
	}
	return r
}

func (e *Engine) pkgByPath(path string) *types.Package {
	if p, ok := e.pkgs[path]; ok {
		return p.Pkg
	}
	return nil
}

// evalTokPred: stream token predicates tokX(stream, position, fields...).
func (e *Engine) evalTokPred(c *evalCtx, name string, args []Expr) Val {
	s := e.resolveAlias(c.st, streamRef(e.eval(c, args[0])))
	pos := toWidth(e.eval(c, args[1]).t(), 64, false)
	t := e.tokLoad(c.st, s, pos)
	arg := func(i int, w int) *Term {
		v := e.eval(c, args[i])
		return toWidth(v.t(), w, false)
	}
	switch name {
	case "tokKind":
		return Val{types.Typ[types.Uint8], []*Term{t.kind}}
	case "tokN":
		return Val{types.Typ[types.Uint64], []*Term{t.n}}
	case "tokHead":
		return boolVal(And(Eq(t.kind, BVConst(tkHead, 8)), Eq(t.m, arg(2, 8)), Eq(t.n, arg(3, 64))))
	case "tokRaw":
		return boolVal(And(Eq(t.kind, BVConst(tkRaw, 8)), Eq(t.n, arg(2, 64))))
	case "tokFix", "tokFixLE":
		wv := e.eval(c, args[2])
		if wv.t().Op != OConst {
			panic(fmt.Errorf("tokFix width must be constant"))
		}
		m := wv.t().Val
		if name == "tokFixLE" {
			m |= 0x80
		}
		if m&0x7f == 1 {
			// a single byte has no byte order
			return boolVal(And(Eq(t.kind, BVConst(tkFix, 8)), Eq(BAnd(t.m, BVConst(0x7f, 8)), BVConst(1, 8)), Eq(t.n, arg(3, 64))))
		}
		return boolVal(And(Eq(t.kind, BVConst(tkFix, 8)), Eq(t.m, BVConst(m, 8)), Eq(t.n, arg(3, 64))))
	case "tokBlk":
		data := e.eval(c, args[2])
		if isString(data.T) {
			return boolVal(And(Eq(t.kind, BVConst(tkBlk, 8)), Eq(t.n, strLen(data.t())), Eq(t.cid, App("strcid", Ref64, data.t()))))
		}
		n := data.sLen()
		key := arrRoot(types.Typ[types.Uint8]) + "|[]"
		var content *Term
		if n.Op != OConst && t.n.Op == OConst && t.n.Val <= 16 {
			// the token's length is known on this path: compare byte-wise under the length equality
			cs := []*Term{}
			for i := uint64(0); i < t.n.Val; i++ {
				cs = append(cs, Eq(c.st.loadLeaf("blk|data", []*Term{t.cid, BVConst(i, 64)}, BV(8)),
					c.st.loadLeaf(key, []*Term{data.sRef(), Add(data.sOff(), BVConst(i, 64))}, BV(8))))
			}
			content = And(cs...)
		} else if n.Op == OConst && n.Val <= 16 {
			cs := []*Term{}
			for i := uint64(0); i < n.Val; i++ {
				cs = append(cs, Eq(c.st.loadLeaf("blk|data", []*Term{t.cid, BVConst(i, 64)}, BV(8)),
					c.st.loadLeaf(key, []*Term{data.sRef(), Add(data.sOff(), BVConst(i, 64))}, BV(8))))
			}
			content = And(cs...)
		} else {
			arr := c.st.cellArr(key, 2, BV(8))
			blk := c.st.cellArr("blk|data", 2, BV(8))
			j := Bound("j", Ref64)
			content = Forall([]*Term{j}, Implies(Ult(j, n), Eq(Select(blk, Concat(t.cid, j)), Select(arr, Concat(data.sRef(), Add(data.sOff(), j))))))
		}
		return boolVal(And(Eq(t.kind, BVConst(tkBlk, 8)), Eq(t.n, n), content))
	case "tokEID":
		v := e.eval(c, args[2])
		if _, ok := v.T.Underlying().(*types.Struct); ok {
			v = v.field(0)
		}
		return boolVal(And(Eq(t.kind, BVConst(tkEID, 8)), Eq(t.aux, ZExt(v.iTag(), 64)), Eq(t.cid, v.iPl())))
	case "tokExt":
		v := e.eval(c, args[2])
		return boolVal(And(Eq(t.kind, BVConst(tkExt, 8)), Eq(t.aux, ZExt(v.iTag(), 64)), Eq(t.cid, v.iPl())))
	}
	panic(fmt.Errorf("unknown token predicate %s", name))
}

// embeddedPath: the chain of field names leading to a (possibly promoted) field of struct type T;
// length 1 for a direct field, nil if there is none.
func embeddedPath(T types.Type, name string) []string {
	st, ok := T.Underlying().(*types.Struct)
	if !ok {
		return nil
	}
	for i := 0; i < st.NumFields(); i++ {
		if st.Field(i).Name() == name {
			return []string{name}
		}
	}
	for i := 0; i < st.NumFields(); i++ {
		f := st.Field(i)
		if !f.Embedded() {
			continue
		}
		FT := f.Type()
		if p, ok := FT.Underlying().(*types.Pointer); ok {
			FT = p.Elem()
		}
		if sub := embeddedPath(FT, name); sub != nil {
			return append([]string{f.Name()}, sub...)
		}
	}
	return nil
}

// st2term: the iterator reference encoded in a "$iter/<term>" ghost key (a concrete fresh reference).
func st2term(gk string) *Term {
	var v uint64
	name := strings.TrimPrefix(gk, "$iter/")
	if _, err := fmt.Sscanf(name, "#x%x", &v); err == nil {
		return BVConst(v, 64)
	}
	return nil
}
