package main

import (
	"crypto/sha256"
	"fmt"
	"go/ast"
	"go/token"
	"strings"

	"golang.org/x/tools/go/ssa"
)

// shapeHash is a hash of a function's source modulo the names of its local variables (parameters, results, locals of
// the function and of its closures): identifiers declared inside the function are replaced by the ordinal of their
// first occurrence. Two versions of a function with the same hash differ by a consistent renaming of locals (and by
// comments / layout) only.
func shapeHash(fn *ssa.Function) string {
	h, _ := shapeOf(fn)
	return h
}

// shapeOf returns the hash and the names of the locals in first-occurrence order.
func shapeOf(fn *ssa.Function) (string, []string) {
	top := fn
	for top.Parent() != nil {
		top = top.Parent()
	}
	node := top.Syntax()
	if node == nil {
		return "", nil
	}
	var names []string
	lo, hi := node.Pos(), node.End()
	ord := map[*ast.Object]int{}
	var sb strings.Builder
	ast.Inspect(node, func(n ast.Node) bool {
		switch x := n.(type) {
		case nil:
			sb.WriteString(")")
			return true
		case *ast.Ident:
			if x.Obj != nil && x.Obj.Pos() >= lo && x.Obj.Pos() < hi && (x.Obj.Kind == ast.Var || x.Obj.Kind == ast.Con) {
				k, ok := ord[x.Obj]
				if !ok {
					k = len(ord)
					ord[x.Obj] = k
					names = append(names, x.Name)
				}
				fmt.Fprintf(&sb, "(v%d", k)
			} else {
				// the function's own name is not part of its shape (a renamed function keeps its shape)
				if fd, ok := node.(*ast.FuncDecl); ok && x == fd.Name {
					sb.WriteString("(fn")
				} else {
					fmt.Fprintf(&sb, "(id:%s", x.Name)
				}
			}
		case *ast.BasicLit:
			fmt.Fprintf(&sb, "(lit:%s", x.Value)
		case *ast.BinaryExpr:
			fmt.Fprintf(&sb, "(bin:%s", x.Op)
		case *ast.UnaryExpr:
			fmt.Fprintf(&sb, "(un:%s", x.Op)
		case *ast.AssignStmt:
			tok := x.Tok
			if tok == token.DEFINE {
				tok = token.ASSIGN // ":=" vs "var x = " style is not shape; but keep other assignment operators
			}
			fmt.Fprintf(&sb, "(as:%s", tok)
		case *ast.IncDecStmt:
			fmt.Fprintf(&sb, "(incdec:%s", x.Tok)
		case *ast.BranchStmt:
			fmt.Fprintf(&sb, "(br:%s", x.Tok)
		case *ast.RangeStmt:
			fmt.Fprintf(&sb, "(range:%s", x.Tok)
		case *ast.CommentGroup, *ast.Comment:
			return false
		default:
			fmt.Fprintf(&sb, "(%T", n)
		}
		return true
	})
	return fmt.Sprintf("%x", sha256.Sum256([]byte(sb.String())))[:24], names
}
