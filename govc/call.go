package main

// Calls: builtins, library models, contracts (modular), inlining, interface dispatch, returns, defers.

import (
	"fmt"
	"go/types"
	"strings"

	"golang.org/x/tools/go/ssa"
)

func (e *Engine) call(st *State, fr *Frame, x *ssa.Call) {
	cc := x.Common()
	var args []Val
	for _, a := range cc.Args {
		args = append(args, e.val(st, fr, a))
	}
	e.dispatch(st, fr, cc, args, x, x)
}

// dispatch performs a call; bind is the SSA value to bind the result to in the caller frame (nil: discard).
func (e *Engine) dispatch(st *State, fr *Frame, cc *ssa.CallCommon, args []Val, in ssa.Instruction, bind ssa.Value) {
	if cc.IsInvoke() {
		recv := e.val(st, fr, cc.Value)
		e.invoke(st, fr, recv, cc.Method, args, in, bind)
		return
	}
	switch callee := cc.Value.(type) {
	case *ssa.Builtin:
		res := e.builtin(st, fr, callee, cc, args, in)
		if bind != nil {
			res.T = bind.Type()
			fr.regs[bind] = res
		}
	case *ssa.Function:
		e.callFn(st, fr, callee, args, nil, in, bind)
	default:
		fv := e.val(st, fr, cc.Value)
		e.callValue(st, fr, fv, args, in, bind)
	}
}

func (e *Engine) callValue(st *State, fr *Frame, fv Val, args []Val, in ssa.Instruction, bind ssa.Value) {
	fi, ok := funcTab[fv.t()]
	if !ok {
		// unknown function value
		e.oblige(st, "nilderef", e.siteName("nilfunc", in), Not(Eq(fv.t(), BVConst(0, 64))), in.Pos(), nil, "call of nil func")
		e.opaqueCall(st, fr, "function value", fv.T.Underlying().(*types.Signature), args, in, bind)
		return
	}
	fn := fi.Fn.(*ssa.Function)
	e.callFn(st, fr, fn, args, fi, in, bind)
}

func (e *Engine) bindResult(fr *Frame, bind ssa.Value, res Val) {
	if bind == nil {
		return
	}
	res.T = bind.Type()
	fr.regs[bind] = res
}

func inModule(fn *ssa.Function) bool {
	p := fn.Package()
	if p == nil {
		if fn.Parent() != nil {
			return inModule(fn.Parent())
		}
		// synthetic wrappers / bound methods: decide by receiver package
		if recv := fn.Signature.Recv(); recv != nil {
			if n := namedOf(recv.Type()); n != nil && n.Obj().Pkg() != nil {
				return inlinePkg(n.Obj().Pkg().Path())
			}
		}
		return false
	}
	return inlinePkg(p.Pkg.Path())
}

func inlinePkg(path string) bool {
	return strings.HasPrefix(path, "github.com/dtn7/dtn7-go/") || path == "github.com/dtn7/cboring"
}

func (e *Engine) callFn(st *State, fr *Frame, fn *ssa.Function, args []Val, clo *FuncInfo, in ssa.Instruction, bind ssa.Value) {
	name := fn.String()
	// "atcall NAME: expr" clauses of the function under verification: a two-state assertion (old() = entry of the
	// function under verification, locals by name) that must hold whenever NAME is about to be called
	if fr.isTop && e.cur != nil && e.cur.c != nil && !e.cur.discover && e.cur.collect == nil {
		for _, cl := range e.cur.c.Clauses {
			if cl.Kind != "atcall" || cl.Name != fn.Name() || (cl.Case != "" && cl.Case != e.cur.caseName) || !e.wantClause(cl, e.cur.c) {
				continue
			}
			ctx := e.frameCtx(st, fr, fr.blk)
			// the actual arguments of the call (receiver first) are available as arg0, arg1, ...
			for i, a := range args {
				av := a
				if i < len(fn.Params) {
					av.T = fn.Params[i].Type()
				}
				ctx.env[fmt.Sprintf("arg%d", i)] = av
			}
			g := e.evalBool(ctx, cl.Expr)
			e.curClause = cl
			e.oblige(st, "atcall", fmt.Sprintf("atcall@%s#%d", cl.Name, cl.Ord), g, in.Pos(), cl.Props, cl.Text)
			e.curClause = nil
		}
	}
	// 1. library models
	if m := lookupModel(fn); m != nil {
		res, ok := m(e, st, fr, fn, args, in)
		if ok {
			e.bindResult(fr, bind, res)
			return
		}
	}
	// 2. contracts
	if c := e.contractFor(fn); c != nil && c.Kind == "trusted" && c.Opts["model"] != "" {
		m := nativeModel(c.Opts["model"])
		if m == nil {
			panic(unsupported("unknown native model " + c.Opts["model"]))
		}
		usedModels["assumed (contract file): "+shortFn(fn)+" = native model "+c.Opts["model"]] = true
		res, ok := m(e, st, fr, fn, args, in)
		if ok {
			e.bindResult(fr, bind, res)
			return
		}
	}
	// "opt noinline F G ..." on the function under verification: use the contracts of these callees at its call sites
	// even though they are marked inline (keeps the number of paths of a large caller manageable)
	forceContract := false
	if e.cur != nil && e.cur.c != nil {
		for _, n := range strings.Fields(e.cur.c.Opts["noinline"]) {
			if n == fn.Name() {
				forceContract = true
			}
		}
	}
	if c := e.contractFor(fn); c != nil && (c.Opts["inline"] != "true" || forceContract) && (fn != e.cur.fn || true) {
		if c.Kind == "func" || c.Kind == "trusted" {
			res := e.applyContract(st, fr, fn, c, args, in)
			e.bindResult(fr, bind, res)
			return
		}
	}
	// synthetic wrappers (bound method closures, thunks) are inlined regardless of package
	// 3. inlining
	if fn.Blocks != nil && (inModule(fn) || fn.Synthetic != "") && !e.inlineBan[name] {
		if len(st.stack) > e.maxInline {
			panic(unsupported("inline depth exceeded at " + name))
		}
		for _, f := range st.stack {
			if f.fn == fn {
				panic(unsupported("recursive call of " + name + " without contract"))
			}
		}
		nf := &Frame{fn: fn, regs: map[ssa.Value]Val{}, blk: fn.Blocks[0], visits: map[int]int{}, closure: clo}
		for i, p := range fn.Params {
			a := args[i]
			a.T = p.Type()
			nf.regs[p] = a
		}
		nf.bind = bind
		nf.callSite = in
		st.stack = append(st.stack, nf)
		return
	}
	// 4. opaque
	e.opaqueCall(st, fr, name, fn.Signature, args, in, bind)
}

// opaqueCall: callee outside reach. Results are unconstrained, the symbolic heap is forgotten.
func (e *Engine) opaqueCall(st *State, fr *Frame, name string, sig *types.Signature, args []Val, in ssa.Instruction, bind ssa.Value) {
	pure := true
	for _, a := range args {
		for _, k := range leafKinds(a.T) {
			if k == lkRef || k == lkPl || k == lkFunc {
				pure = false
			}
		}
	}
	if !pure {
		st.havocAll("call of " + name)
	} else {
		st.note("opaque call (no reference arguments): " + name)
	}
	e.stats["opaque:"+name]++
	var res Val
	switch sig.Results().Len() {
	case 0:
		res = Val{sig.Results(), nil}
	case 1:
		res = freshVal(sig.Results().At(0).Type(), "opq")
	default:
		res = freshVal(sig.Results(), "opq")
	}
	st.assumeRefsOld(res)
	e.bindResult(fr, bind, res)
}

func (e *Engine) invoke(st *State, fr *Frame, recv Val, m *types.Func, args []Val, in ssa.Instruction, bind ssa.Value) {
	// "atcall NAME: expr" for interface method calls (NAME = method name; arg0 = receiver)
	if fr.isTop && e.cur != nil && e.cur.c != nil && !e.cur.discover && e.cur.collect == nil {
		for _, cl := range e.cur.c.Clauses {
			if cl.Kind != "atcall" || cl.Name != m.Name() || (cl.Case != "" && cl.Case != e.cur.caseName) || !e.wantClause(cl, e.cur.c) {
				continue
			}
			ctx := e.frameCtx(st, fr, fr.blk)
			ctx.env["arg0"] = recv
			for i, a := range args {
				ctx.env[fmt.Sprintf("arg%d", i+1)] = a
			}
			g := e.evalBool(ctx, cl.Expr)
			e.curClause = cl
			e.oblige(st, "atcall", fmt.Sprintf("atcall@%s#%d", cl.Name, cl.Ord), g, in.Pos(), cl.Props, cl.Text)
			e.curClause = nil
		}
	}
	tag := recv.iTag()
	e.oblige(st, "nilderef", e.siteName("nilinvoke", in), Not(Eq(tag, BVConst(0, 32))), in.Pos(), nil, "method call on nil interface")
	// ghost stream model for io.Reader / io.Writer method calls, whatever the dynamic type
	if mm := lookupIfaceModel(recv.T, m); mm != nil {
		res, ok := mm(e, st, fr, nil, append([]Val{recv}, args...), in)
		if ok {
			e.bindResult(fr, bind, res)
			return
		}
	}
	if tag.Op == OConst {
		T := typeOfTag[tag.Val]
		if T == nil {
			// nil interface: the nil-dereference obligation above fails, the path ends in a panic
			panic(pathEnd{"method call on nil interface"})
		}
		e.invokeOn(st, fr, recv, T, m, args, in, bind)
		return
	}
	// interface-level contract?
	if n, ok := recv.T.(*types.Named); ok && n.Obj().Pkg() != nil {
		key := n.Obj().Pkg().Path() + "::" + n.Obj().Name() + "." + m.Name()
		if c := e.cs.ByFunc[key]; c != nil {
			res := e.applyIfaceContract(st, fr, recv, m, c, args, in)
			e.bindResult(fr, bind, res)
			return
		}
	}
	if ci := e.closedImpls(recv.T); ci != nil {
		// case split over the closed implementor set
		var live []types.Type
		for _, c := range ci {
			if !Eq(tag, typeTag(c)).IsFalse() {
				live = append(live, c)
			}
		}
		// assume the tag is one of the implementors
		var any []*Term
		for _, c := range live {
			any = append(any, Eq(tag, typeTag(c)))
		}
		st.assume(Or(any...))
		for i := len(live) - 1; i >= 0; i-- {
			c := live[i]
			s := st
			f := fr
			if i > 0 {
				s = st.clone()
				f = s.top()
			}
			s.assume(Eq(tag, typeTag(c)))
			s.trace = append(s.trace, "dyn:"+typeName(c))
			if i > 0 {
				func() {
					defer func() {
						if r := recover(); r != nil {
							if _, ok := r.(pathEnd); ok {
								s.dead = true
								return
							}
							panic(r)
						}
					}()
					e.invokeOn(s, f, recv, c, m, args, in, bind)
				}()
				if !s.dead {
					e.work = append(e.work, s)
				}
			} else {
				e.invokeOn(s, f, recv, c, m, args, in, bind)
			}
		}
		return
	}
	if tn := typeName(recv.T); (tn == "error" && m.Name() == "Error") || (m.Name() == "String" && m.Type().(*types.Signature).Params().Len() == 0) {
		// message text of an error / Stringer (used for logging and error wrapping): an opaque string; like fmt.Errorf
		// (DESIGN 2.4) it is treated as free of side effects
		st.note("error.Error()/String() of an unknown dynamic type: opaque text, assumed free of side effects")
		e.stats["text:"+tn+"."+m.Name()]++
		res := freshVal(m.Type().(*types.Signature).Results().At(0).Type(), "txt")
		e.bindResult(fr, bind, res)
		return
	}
	e.opaqueCall(st, fr, "interface method "+typeName(recv.T)+"."+m.Name(), m.Type().(*types.Signature), append([]Val{recv}, args...), in, bind)
}

func (e *Engine) invokeOn(st *State, fr *Frame, recv Val, T types.Type, m *types.Func, args []Val, in ssa.Instruction, bind ssa.Value) {
	fn := e.prog.LookupMethod(T, m.Pkg(), m.Name())
	if fn == nil {
		panic(unsupported("method " + m.Name() + " not found on " + typeName(T)))
	}
	rv := e.unbox(st, recv, T)
	e.callFn(st, fr, fn, append([]Val{rv}, args...), nil, in, bind)
}

// ---------- returns and defers ----------

func (e *Engine) ret(st *State, fr *Frame, x *ssa.Return) {
	var res Val
	switch len(x.Results) {
	case 0:
		res = Val{fr.fn.Signature.Results(), nil}
	case 1:
		res = e.val(st, fr, x.Results[0])
		res.T = fr.fn.Signature.Results().At(0).Type()
	default:
		var L []*Term
		for _, r := range x.Results {
			L = append(L, e.val(st, fr, r).L...)
		}
		res = Val{fr.fn.Signature.Results(), L}
	}
	e.popFrame(st, fr, res, x)
}

func (e *Engine) popFrame(st *State, fr *Frame, res Val, x *ssa.Return) {
	if len(st.stack) == 1 || fr.isTop {
		e.atReturn(st, fr, res, x)
		panic(pathEnd{"return"})
	}
	st.stack = st.stack[:len(st.stack)-1]
	caller := st.top()
	if fr.deferred {
		return // result discarded; caller re-executes RunDefers
	}
	e.bindResult(caller, fr.bind, res)
}

func (e *Engine) runDefers(st *State, fr *Frame) {
	if len(fr.defers) == 0 {
		return
	}
	d := fr.defers[len(fr.defers)-1]
	fr.defers = fr.defers[:len(fr.defers)-1]
	fr.ip-- // come back to RunDefers afterwards
	depth := len(st.stack)
	e.dispatchDeferred(st, fr, d)
	if len(st.stack) > depth {
		st.top().deferred = true
	}
}

func (e *Engine) dispatchDeferred(st *State, fr *Frame, d deferred) {
	cc := d.call
	if cc.IsInvoke() {
		e.invoke(st, fr, d.fnv, cc.Method, d.args, fr.blk.Instrs[fr.ip], nil)
		return
	}
	switch callee := cc.Value.(type) {
	case *ssa.Builtin:
		e.builtin(st, fr, callee, cc, d.args, fr.blk.Instrs[fr.ip])
	case *ssa.Function:
		e.callFn(st, fr, callee, d.args, nil, fr.blk.Instrs[fr.ip], nil)
	default:
		e.callValue(st, fr, d.fnv, d.args, fr.blk.Instrs[fr.ip], nil)
	}
}

// ---------- builtins ----------

func (e *Engine) builtin(st *State, fr *Frame, b *ssa.Builtin, cc *ssa.CallCommon, args []Val, in ssa.Instruction) Val {
	switch b.Name() {
	case "len":
		a := args[0]
		switch u := a.T.Underlying().(type) {
		case *types.Slice:
			return Val{types.Typ[types.Int], []*Term{a.sLen()}}
		case *types.Basic:
			return Val{types.Typ[types.Int], []*Term{strLen(a.t())}}
		case *types.Map:
			root := mapRoot(a.T)
			ln := st.loadLeaf(root+"|len", []*Term{a.t()}, Ref64)
			st.assume(Ule(ln, BVConst(maxLen, 64)))
			return Val{types.Typ[types.Int], []*Term{Ite(Eq(a.t(), BVConst(0, 64)), BVConst(0, 64), ln)}}
		case *types.Array:
			return Val{types.Typ[types.Int], []*Term{BVConst(uint64(u.Len()), 64)}}
		case *types.Pointer:
			at := u.Elem().Underlying().(*types.Array)
			return Val{types.Typ[types.Int], []*Term{BVConst(uint64(at.Len()), 64)}}
		case *types.Chan:
			return Val{types.Typ[types.Int], []*Term{FreshVar("chanlen", Ref64)}}
		}
	case "cap":
		a := args[0]
		switch u := a.T.Underlying().(type) {
		case *types.Slice:
			return Val{types.Typ[types.Int], []*Term{a.sCap()}}
		case *types.Array:
			return Val{types.Typ[types.Int], []*Term{BVConst(uint64(u.Len()), 64)}}
		}
	case "append":
		return e.appendOp(st, fr, args, in)
	case "copy":
		return e.copyOp(st, fr, args, in)
	case "delete":
		m := args[0]
		k := args[1]
		k.T = m.T.Underlying().(*types.Map).Key()
		e.mapDelete(st, m, k)
		return Val{types.NewTuple(), nil}
	case "close":
		ch := args[0]
		closed := st.loadLeaf("chan|closed", []*Term{ch.t()}, BoolSort)
		e.oblige(st, "chanclose", e.siteName("chanclose", in), And(Not(Eq(ch.t(), BVConst(0, 64))), Not(closed)), in.Pos(), nil, "close of nil or closed channel")
		st.storeLeaf("chan|closed", []*Term{ch.t()}, True)
		n := st.loadLeaf("chan|closes", []*Term{ch.t()}, Ref64)
		st.storeLeaf("chan|closes", []*Term{ch.t()}, Add(n, BVConst(1, 64)))
		return Val{types.NewTuple(), nil}
	case "ssa:wrapnilchk":
		// wrapper for a value-receiver method called through a pointer: panics on a nil pointer
		e.nilCheck(st, args[0], in)
		return args[0]
	case "print", "println":
		return Val{types.NewTuple(), nil}
	case "recover":
		return zeroVal(types.NewInterfaceType(nil, nil))
	case "min", "max":
		a, b := args[0], args[1]
		lt := e.binop(st, tokenLSS, a, b, types.Typ[types.Bool], nil).t()
		L := make([]*Term, len(a.L))
		for i := range a.L {
			if cc.Value.Name() == "min" {
				L[i] = Ite(lt, a.L[i], b.L[i])
			} else {
				L[i] = Ite(lt, b.L[i], a.L[i])
			}
		}
		return Val{a.T, L}
	}
	panic(unsupported("builtin " + b.Name()))
}

// appendOp models append(s, elems...) where elems is a slice (SSA always passes a slice).
// Both outcomes (in place / reallocation) are merged: result uses a fresh backing array when
// the capacity does not suffice, the old one otherwise; to stay simple and sound we always
// copy into a fresh backing array unless len(t) is a small constant and capacity suffices provably.
func (e *Engine) appendOp(st *State, fr *Frame, args []Val, in ssa.Instruction) Val {
	s, t := args[0], args[1]
	if isString(t.T) {
		panic(unsupported("append(bytes, string...)"))
	}
	et := s.T.Underlying().(*types.Slice).Elem()
	newLen := Add(s.sLen(), t.sLen())
	// in-place when it fits
	fits := Ule(newLen, s.sCap())
	if t.sLen().Op == OConst && t.sLen().Val <= 8 {
		n := int(t.sLen().Val)
		if n == 0 {
			return s
		}
		// read the elements first (memmove semantics)
		elems := make([]Val, n)
		for i := 0; i < n; i++ {
			elems[i] = st.loadAt(e.elemPI(t, BVConst(uint64(i), 64)), et)
		}
		if fits.IsTrue() {
			for i := 0; i < n; i++ {
				pi := e.elemPI(s, Add(s.sLen(), BVConst(uint64(i), 64)))
				e.checkAssigns(st, pi, et, in)
				st.storeAt(pi, elems[i])
			}
			return mkSlice(s.T, s.sRef(), s.sOff(), newLen, s.sCap())
		}
		if fits.IsFalse() || true {
			// Reallocation (also used as the sound over-approximation when the capacity is symbolic and the
			// in-place case cannot be excluded: callers must not rely on aliasing after append, which Go code
			// that is correct under both outcomes never does).
			if !fits.IsFalse() {
				// fork: explore the in-place outcome too
				o := st.clone()
				o.assume(fits)
				o.trace = append(o.trace, "append:inplace")
				of := o.top()
				for i := 0; i < n; i++ {
					pi := e.elemPI(s, Add(s.sLen(), BVConst(uint64(i), 64)))
					o.storeAt(pi, elems[i])
				}
				if call, ok := in.(*ssa.Call); ok {
					of.regs[call] = mkSlice(call.Type(), s.sRef(), s.sOff(), newLen, s.sCap())
					e.work = append(e.work, o)
				}
				st.assume(Not(fits))
				st.trace = append(st.trace, "append:realloc")
			}
			ref := st.alloc()
			e.zeroSlice(st, et, ref)
			e.blit(st, et, ref, BVConst(0, 64), s.sRef(), s.sOff(), s.sLen())
			ns := mkSlice(s.T, ref, BVConst(0, 64), newLen, FreshVar("cap", Ref64))
			st.assume(Ule(newLen, ns.sCap()))
			st.assume(Ule(ns.sCap(), BVConst(maxLen*2, 64)))
			for i := 0; i < n; i++ {
				st.storeAt(e.elemPI(ns, Add(s.sLen(), BVConst(uint64(i), 64))), elems[i])
			}
			return ns
		}
	}
	// general case: symbolic number of appended elements -> always model as reallocation with two block copies;
	// the in-place outcome differs only by aliasing with the old backing array.
	if !fits.IsFalse() {
		// in-place outcome as a separate path (memmove semantics within one array)
		o := st.clone()
		o.assume(fits)
		o.trace = append(o.trace, "append:inplace")
		of := o.top()
		e.blit(o, et, s.sRef(), Add(s.sOff(), s.sLen()), t.sRef(), t.sOff(), t.sLen())
		if call, ok := in.(*ssa.Call); ok {
			of.regs[call] = mkSlice(call.Type(), s.sRef(), s.sOff(), newLen, s.sCap())
			e.work = append(e.work, o)
		}
		st.assume(Not(fits))
		st.trace = append(st.trace, "append:realloc")
	}
	ref := st.alloc()
	e.zeroSlice(st, et, ref)
	e.blit(st, et, ref, BVConst(0, 64), s.sRef(), s.sOff(), s.sLen())
	e.blit(st, et, ref, s.sLen(), t.sRef(), t.sOff(), t.sLen())
	ns := mkSlice(s.T, ref, BVConst(0, 64), newLen, FreshVar("cap", Ref64))
	st.assume(Ule(newLen, ns.sCap()))
	st.assume(Ule(ns.sCap(), BVConst(maxLen*2, 64)))
	return ns
}

// blit copies n elements src[soff..] -> dst[doff..] (memmove: source read from the pre-state) for every leaf cell of et.
// Encoded with a lambda-free trick: new array A' is a fresh array constrained by a quantified assumption.
func (e *Engine) blit(st *State, et types.Type, dref, doff, sref, soff, n *Term) {
	if n.Op == OConst && n.Val == 0 {
		return
	}
	pi := &PtrInfo{Ref: dref, Root: arrRoot(et), Path: []Step{{Idx: BVConst(0, 64)}}, Elem: et}
	type cell struct {
		key  string
		s    *Sort
		rest []*Term // indices below the element (arrays inside the element), concrete
	}
	var cells []cell
	st.walk(pi, et, func(key string, idx []*Term, s *Sort) {
		if len(idx) < 2 {
			panic(unsupported("copy of elements: unexpected cell shape"))
		}
		cells = append(cells, cell{key, s, append([]*Term(nil), idx[2:]...)})
	})
	if n.Op == OConst && n.Val <= 16 {
		for _, c := range cells {
			vals := make([]*Term, n.Val)
			for i := uint64(0); i < n.Val; i++ {
				vals[i] = st.loadLeaf(c.key, append([]*Term{sref, Add(soff, BVConst(i, 64))}, c.rest...), c.s)
			}
			for i := uint64(0); i < n.Val; i++ {
				st.storeLeaf(c.key, append([]*Term{dref, Add(doff, BVConst(i, 64))}, c.rest...), vals[i])
			}
		}
		return
	}
	done := map[string]bool{}
	for _, c := range cells {
		if done[c.key] {
			continue // one quantified copy per cell array covers every inner index
		}
		done[c.key] = true
		m := 2 + len(c.rest)
		old := st.cellArr(c.key, m, c.s)
		nw := FreshVar("Hc|"+c.key, old.S)
		j := Bound("j", BV(64*m))
		jr := Extract(64*m-1, 64*m-64, j)
		ji := Extract(64*m-65, 64*m-128, j)
		inDst := And(Eq(jr, dref), Ule(doff, ji), Ult(Sub(ji, doff), n))
		srcIdx := Concat(sref, Add(soff, Sub(ji, doff)))
		if m > 2 {
			srcIdx = Concat(srcIdx, Extract(64*m-129, 0, j))
		}
		body := Eq(Select(nw, j), Ite(inDst, Select(old, srcIdx), Select(old, j)))
		st.assume(Forall([]*Term{j}, body))
		st.mem[c.key] = nw
		st.written[c.key] = true
	}
}

func (e *Engine) copyOp(st *State, fr *Frame, args []Val, in ssa.Instruction) Val {
	d, s := args[0], args[1]
	if isString(s.T) {
		panic(unsupported("copy(bytes, string)"))
	}
	et := d.T.Underlying().(*types.Slice).Elem()
	n := Ite(Ult(d.sLen(), s.sLen()), d.sLen(), s.sLen())
	e.checkAssignsRange(st, d, in)
	e.blit(st, et, d.sRef(), d.sOff(), s.sRef(), s.sOff(), n)
	return Val{types.Typ[types.Int], []*Term{n}}
}
