package main

// Built-in models of library functions (trusted; listed in evidence as trusted_base).

import (
	"fmt"
	"go/types"
	"strings"

	"golang.org/x/tools/go/ssa"
)

type modelFn func(e *Engine, st *State, fr *Frame, fn *ssa.Function, args []Val, in ssa.Instruction) (Val, bool)

var usedModels = map[string]bool{}

func errTagTerm() *Term { return typeTag(errDynType) }

var errDynType = types.NewNamed(types.NewTypeName(0, nil, "govc.opaqueError", nil), types.NewStruct(nil, nil), nil)

func errorType() types.Type { return types.Universe.Lookup("error").Type() }

func freshError(st *State) Val {
	pl := FreshVar("ref!errpl", Ref64)
	st.assume(Not(Eq(pl, BVConst(0, 64))))
	return Val{errorType(), []*Term{errTagTerm(), pl}}
}

func tupleOf(sig *types.Signature) types.Type {
	if sig.Results().Len() == 1 {
		return sig.Results().At(0).Type()
	}
	return sig.Results()
}

func lookupModel(fn *ssa.Function) modelFn {
	name := fn.String()
	pkg := ""
	if fn.Package() != nil {
		pkg = fn.Package().Pkg.Path()
	} else if recv := fn.Signature.Recv(); recv != nil {
		if n := namedOf(recv.Type()); n != nil && n.Obj().Pkg() != nil {
			pkg = n.Obj().Pkg().Path()
		}
	}
	mark := func(m modelFn) modelFn { usedModels[name] = true; return m }
	if m := streamModels(name); m != nil {
		return mark(m)
	}
	if m := binaryModels(name); m != nil {
		return mark(m)
	}
	if m := syncMapModels(name); m != nil {
		return mark(m)
	}
	if m := sortModels(name); m != nil {
		return mark(m)
	}
	switch {
	case pkg == "github.com/sirupsen/logrus":
		return mark(modelNoEffect)
	case pkg == "time" && name != "time.Now":
		// package time: no effect on the program's heap; results are deterministic uninterpreted functions of the arguments
		return mark(modelPureUF)
	case name == "fmt.Errorf" || name == "errors.New":
		return mark(func(e *Engine, st *State, fr *Frame, fn *ssa.Function, args []Val, in ssa.Instruction) (Val, bool) {
			return freshError(st), true
		})
	case name == "fmt.Sprintf" || name == "fmt.Sprint" || name == "fmt.Sprintln":
		return mark(func(e *Engine, st *State, fr *Frame, fn *ssa.Function, args []Val, in ssa.Instruction) (Val, bool) {
			s := FreshVar("sprintf", StrSort)
			st.assume(Ule(strLen(s), BVConst(maxLen, 64)))
			return Val{types.Typ[types.String], []*Term{s}}, true
		})
	case name == "fmt.Fprintf" || name == "fmt.Printf" || name == "fmt.Println" || name == "fmt.Fprintln" || name == "fmt.Print":
		return mark(modelNoEffect)
	case name == "github.com/hashicorp/go-multierror.Append":
		return mark(func(e *Engine, st *State, fr *Frame, fn *ssa.Function, args []Val, in ssa.Instruction) (Val, bool) {
			// returns a non-nil *multierror.Error
			ref := st.alloc()
			return Val{fn.Signature.Results().At(0).Type(), []*Term{ref}}, true
		})
	case strings.HasPrefix(name, "(*sync.Mutex).") || strings.HasPrefix(name, "(*sync.RWMutex).") || strings.HasPrefix(name, "(*sync.WaitGroup).") || strings.HasPrefix(name, "(*sync.Once).Do") && false:
		return mark(modelNoEffect)
	case name == "sync/atomic.LoadInt32" || name == "sync/atomic.LoadInt64" || name == "sync/atomic.LoadUint32" || name == "sync/atomic.LoadUint64":
		return mark(func(e *Engine, st *State, fr *Frame, fn *ssa.Function, args []Val, in ssa.Instruction) (Val, bool) {
			if in != nil {
				e.nilCheck(st, args[0], in)
			}
			return st.loadAt(ptrInfo(args[0]), deref(args[0].T)), true
		})
	case name == "sync/atomic.StoreInt32" || name == "sync/atomic.StoreInt64" || name == "sync/atomic.StoreUint32" || name == "sync/atomic.StoreUint64":
		return mark(func(e *Engine, st *State, fr *Frame, fn *ssa.Function, args []Val, in ssa.Instruction) (Val, bool) {
			if in != nil {
				e.nilCheck(st, args[0], in)
			}
			pi := ptrInfo(args[0])
			v := args[1]
			v.T = deref(args[0].T)
			if in != nil {
				e.checkAssigns(st, pi, v.T, in)
			}
			st.storeAt(pi, v)
			return Val{types.NewTuple(), nil}, true
		})
	case name == "sync/atomic.AddInt32" || name == "sync/atomic.AddInt64" || name == "sync/atomic.AddUint32" || name == "sync/atomic.AddUint64":
		return mark(func(e *Engine, st *State, fr *Frame, fn *ssa.Function, args []Val, in ssa.Instruction) (Val, bool) {
			if in != nil {
				e.nilCheck(st, args[0], in)
			}
			pi := ptrInfo(args[0])
			T := deref(args[0].T)
			old := st.loadAt(pi, T)
			nv := Val{T, []*Term{Add(old.t(), args[1].t())}}
			if in != nil {
				e.checkAssigns(st, pi, T, in)
			}
			st.storeAt(pi, nv)
			return nv, true
		})
	case name == "bytes.Equal":
		return mark(modelBytesEqual)
	case name == "time.Now":
		return mark(func(e *Engine, st *State, fr *Frame, fn *ssa.Function, args []Val, in ssa.Instruction) (Val, bool) {
			// inside contract expressions "now" is the instant the code last observed
			if st.isPure {
				if v, ok := st.ghost["$now"]; ok {
					return v, true
				}
			}
			v := freshVal(fn.Signature.Results().At(0).Type(), "now")
			st.assumeRefsOld(v)
			st.ghost["$now"] = v
			return v, true
		})
	case name == "math.Min" || name == "math.Max":
		return mark(func(e *Engine, st *State, fr *Frame, fn *ssa.Function, args []Val, in ssa.Instruction) (Val, bool) {
			a, b := args[0].t(), args[1].t()
			// math.Min/Max of two converted 64-bit integers: float64(x) is monotone in x, so the result is the
			// conversion of the smaller/larger integer provided that integer is exactly representable (|x| <= 2^53),
			// which is a side obligation of the call site
			if a.Op == OApp && b.Op == OApp && a.Name == "s2real64" && b.Name == "s2real64" && in != nil {
				x, y := a.Args[0], b.Args[0]
				pick := Ite(Slt(x, y), x, y)
				if name == "math.Max" {
					pick = Ite(Slt(x, y), y, x)
				}
				lim := BVConst(1<<53, 64)
				e.oblige(st, "floatexact", e.siteName("floatexact", in), And(Sle(Neg(lim), pick), Sle(pick, lim)), in.Pos(), nil, "integer exactly representable as float64")
				r := App("s2real64", RealSort, pick)
				st.ghost["$exact/"+r.String()] = Val{nil, []*Term{True}}
				return Val{types.Typ[types.Float64], []*Term{r}}, true
			}
			lt := rbin(ORLt, a, b)
			if name == "math.Min" {
				return Val{types.Typ[types.Float64], []*Term{Ite(lt, a, b)}}, true
			}
			return Val{types.Typ[types.Float64], []*Term{Ite(lt, b, a)}}, true
		})
	}
	return nil
}

func lookupIfaceModel(T types.Type, m *types.Func) modelFn {
	if mm := streamIfaceModel(T, m); mm != nil {
		usedModels["interface "+typeName(T)+"."+m.Name()+" (ghost token stream)"] = true
		return mm
	}
	return nil
}

func modelNoEffect(e *Engine, st *State, fr *Frame, fn *ssa.Function, args []Val, in ssa.Instruction) (Val, bool) {
	sig := fn.Signature
	switch sig.Results().Len() {
	case 0:
		return Val{sig.Results(), nil}, true
	}
	v := freshVal(tupleOf(sig), "lib")
	// returned pointers (e.g. *logrus.Entry) are non-nil
	for i, k := range leafKinds(v.T) {
		if k == lkRef {
			st.assume(Not(Eq(v.L[i], BVConst(0, 64))))
			st.assume(Ult(v.L[i], BVConst(freshRefBase, 64)))
		}
	}
	return v, true
}

// bytes.Equal(a, b): length equality and element-wise equality.
func modelBytesEqual(e *Engine, st *State, fr *Frame, fn *ssa.Function, args []Val, in ssa.Instruction) (Val, bool) {
	a, b := args[0], args[1]
	key := arrRoot(types.Typ[types.Uint8]) + "|[]"
	lenEq := Eq(a.sLen(), b.sLen())
	if a.sLen().Op == OConst && a.sLen().Val <= 16 {
		cs := []*Term{lenEq}
		for i := uint64(0); i < a.sLen().Val; i++ {
			x := st.loadLeaf(key, []*Term{a.sRef(), Add(a.sOff(), BVConst(i, 64))}, BV(8))
			y := st.loadLeaf(key, []*Term{b.sRef(), Add(b.sOff(), BVConst(i, 64))}, BV(8))
			cs = append(cs, Eq(x, y))
		}
		return boolVal(And(cs...)), true
	}
	if b.sLen().Op == OConst && b.sLen().Val <= 16 {
		return modelBytesEqual(e, st, fr, fn, []Val{b, a}, in)
	}
	arr := st.cellArr(key, 2, BV(8))
	i := Bound("i", Ref64)
	body := Implies(Ult(i, a.sLen()), Eq(Select(arr, Concat(a.sRef(), Add(a.sOff(), i))), Select(arr, Concat(b.sRef(), Add(b.sOff(), i)))))
	r := FreshVar("bytesEq", BoolSort)
	st.assume(Eq(r, And(lenEq, Forall([]*Term{i}, body))))
	return boolVal(r), true
}

var _ = fmt.Sprintf

// modelPureUF: a library function without heap effects whose scalar results are uninterpreted functions of its arguments.
func modelPureUF(e *Engine, st *State, fr *Frame, fn *ssa.Function, args []Val, in ssa.Instruction) (Val, bool) {
	sig := fn.Signature
	if sig.Results().Len() == 0 {
		return Val{sig.Results(), nil}, true
	}
	var as []*Term
	for _, a := range args {
		as = append(as, a.L...)
	}
	RT := tupleOf(sig)
	ss := leafSorts(RT)
	L := make([]*Term, len(ss))
	for i, srt := range ss {
		L[i] = App(fmt.Sprintf("lib!%s#%d", fn.String(), i), srt, as...)
	}
	v := Val{RT, L}
	for i, k := range leafKinds(RT) {
		if k == lkRef || k == lkPl {
			st.assume(Ult(L[i], BVConst(freshRefBase, 64)))
		}
	}
	st.assumeSliceWF(v)
	return v, true
}
