package main

// sync.Map as a ghost map (sequential semantics, like every lock-protected structure in this model).
//
// A sync.Map object is identified by the reference of the object it is embedded in plus the field path; its
// contents live in the cells  syncmap<path|keytype>|has  and  |val#0, |val#1  (the stored interface{} value),
// indexed like an ordinary Go map by the canonical leaves of the key's dynamic value.

import (
	"fmt"
	"os"
	"go/types"
	"strings"

	"golang.org/x/tools/go/ssa"
)

var anyT = types.NewInterfaceType(nil, nil)

func (e *Engine) smCells(st *State, mp Val, key Val) (root string, idx []*Term) {
	pi := ptrInfo(mp)
	if os.Getenv("GOVC_DEBUG") != "" {
		fmt.Printf("smCells: ptr term %s -> root %s path %v\n", mp.t(), pi.Root, pi.Path)
	}
	path := pi.Root
	for _, s := range pi.Path {
		if s.Field != "" {
			path += "." + s.Field
		} else {
			panic(unsupported("sync.Map inside an array"))
		}
	}
	kt := "?"
	if tg := key.iTag(); tg.Op != OConst {
		// a key whose dynamic type is fixed by the path condition (requires is(key, T))
		if c, ok := st.constEqs()[tg]; ok {
			key = Val{key.T, append([]*Term{c}, key.L[1:]...)}
		}
	}
	if key.iTag().Op == OConst && typeOfTag[key.iTag().Val] != nil {
		kt = typeName(typeOfTag[key.iTag().Val])
	} else {
		panic(unsupported("sync.Map key of unknown dynamic type"))
	}
	root = "syncmap<" + path + "|" + kt + ">"
	idx = mapIdx(pi.Ref, e.keyLeaves(st, key))
	return
}

func (e *Engine) smLoad(st *State, mp Val, key Val) (Val, *Term) {
	root, idx := e.smCells(st, mp, key)
	has := st.loadLeaf(root+"|has", idx, BoolSort)
	tag := st.loadLeaf(root+"|val#0", idx, BV(32))
	pl := st.loadLeaf(root+"|val#1", idx, Ref64)
	z := zeroVal(anyT)
	v := Val{anyT, []*Term{Ite(has, tag, z.L[0]), Ite(has, pl, z.L[1])}}
	return v, has
}

func (e *Engine) smStore(st *State, mp Val, key Val, v Val) {
	root, idx := e.smCells(st, mp, key)
	st.storeLeaf(root+"|has", idx, True)
	st.storeLeaf(root+"|val#0", idx, v.L[0])
	st.storeLeaf(root+"|val#1", idx, v.L[1])
}

func (e *Engine) smDelete(st *State, mp Val, key Val) {
	root, idx := e.smCells(st, mp, key)
	st.storeLeaf(root+"|has", idx, False)
}

func syncMapModels(name string) modelFn {
	if name == "(*sync.Once).Do" {
		// f runs at most once: whatever it does to the variables it captured may have happened (the closures passed to
		// Once.Do in this code base only set captured flags); nothing else changes.
		return func(e *Engine, st *State, fr *Frame, fn *ssa.Function, args []Val, in ssa.Instruction) (Val, bool) {
			fi, ok := funcTab[args[1].t()]
			if !ok {
				return Val{}, false
			}
			for _, b := range fi.Bind {
				if isPointer(b.T) {
					st.havocAt(ptrInfo(b), deref(b.T), "once")
				}
			}
			st.note("sync.Once.Do: effects of the callback on its captured variables havoc'd")
			return Val{fn.Signature.Results(), nil}, true
		}
	}
	if !strings.HasPrefix(name, "(*sync.Map).") {
		return nil
	}
	switch strings.TrimPrefix(name, "(*sync.Map).") {
	case "Load":
		return func(e *Engine, st *State, fr *Frame, fn *ssa.Function, args []Val, in ssa.Instruction) (Val, bool) {
			v, has := e.smLoad(st, args[0], args[1])
			return Val{fn.Signature.Results(), []*Term{v.L[0], v.L[1], has}}, true
		}
	case "Store":
		return func(e *Engine, st *State, fr *Frame, fn *ssa.Function, args []Val, in ssa.Instruction) (Val, bool) {
			e.smStore(st, args[0], args[1], args[2])
			return Val{fn.Signature.Results(), nil}, true
		}
	case "Delete":
		return func(e *Engine, st *State, fr *Frame, fn *ssa.Function, args []Val, in ssa.Instruction) (Val, bool) {
			e.smDelete(st, args[0], args[1])
			return Val{fn.Signature.Results(), nil}, true
		}
	case "Range":
		// The callback is verified as a function of its own (closure contract). Here: whatever it does to the variables
		// it captured has happened an unknown number of times; the map itself is unchanged (the callbacks in this code
		// base do not store into the map they iterate).
		return func(e *Engine, st *State, fr *Frame, fn *ssa.Function, args []Val, in ssa.Instruction) (Val, bool) {
			fi, ok := funcTab[args[1].t()]
			if !ok {
				return Val{}, false
			}
			for _, b := range fi.Bind {
				if isPointer(b.T) {
					st.havocAt(ptrInfo(b), deref(b.T), "range")
					nv := st.loadAt(ptrInfo(b), deref(b.T))
					st.assumeSliceWF(nv)
				}
			}
			st.note("sync.Map.Range: callback effects on captured variables havoc'd; callback verified separately")
			return Val{fn.Signature.Results(), nil}, true
		}
	case "LoadOrStore":
		return func(e *Engine, st *State, fr *Frame, fn *ssa.Function, args []Val, in ssa.Instruction) (Val, bool) {
			old, has := e.smLoad(st, args[0], args[1])
			root, idx := e.smCells(st, args[0], args[1])
			st.storeLeaf(root+"|has", idx, True)
			nt := Ite(has, old.L[0], args[2].L[0])
			np := Ite(has, old.L[1], args[2].L[1])
			st.storeLeaf(root+"|val#0", idx, nt)
			st.storeLeaf(root+"|val#1", idx, np)
			return Val{fn.Signature.Results(), []*Term{nt, np, has}}, true
		}
	}
	return nil
}

// contract builtins: smhas(&x.m, key), smget(&x.m, key) -- key is boxed into interface{} like the code does
func (e *Engine) evalSyncMapBuiltin(c *evalCtx, name string, args []Expr) Val {
	if len(args) != 2 {
		panic(fmt.Errorf("%s(map, key)", name))
	}
	var mp Val
	if v, err := e.tryEval(c, args[0]); err == nil && isPointer(v.T) {
		mp = v // a *sync.Map field
	} else {
		pi, T := e.evalAddr(c, args[0])
		mp = mkPtr(&PtrInfo{Ref: pi.Ref, Root: pi.Root, Path: pi.Path, Elem: T})
	}
	k := e.eval(c, args[1])
	if !isIface(k.T) {
		k = e.makeInterface(c.st, k, anyT)
	}
	v, has := e.smLoad(c.st, mp, k)
	if name == "smhas" {
		return boolVal(has)
	}
	return v
}

// sort.Slice(x, less): the elements of the slice are permuted in place. The model forgets the element cells and
// assumes that every new element equals some old element (a permutation function named by a fresh uninterpreted
// symbol); that the result is ordered by less is NOT assumed (no obligation in this code base needs it yet).
var sortSeq int

func sortModels(name string) modelFn {
	if name != "sort.Slice" && name != "sort.SliceStable" {
		return nil
	}
	return func(e *Engine, st *State, fr *Frame, fn *ssa.Function, args []Val, in ssa.Instruction) (Val, bool) {
		x := args[0]
		if x.iTag().Op != OConst || typeOfTag[x.iTag().Val] == nil {
			return Val{}, false
		}
		T := typeOfTag[x.iTag().Val]
		sl, ok := T.Underlying().(*types.Slice)
		if !ok {
			return Val{}, false
		}
		s := e.unbox(st, x, T)
		et := sl.Elem()
		if in != nil {
			e.checkAssignsRange(st, s, in)
		}
		sortSeq++
		pname := fmt.Sprintf("uf!sortperm%d", sortSeq)
		k := BoundCanon("k", 7, BV(64))
		pk := App(pname, Ref64, s.sRef(), k)
		pi := &PtrInfo{Ref: s.sRef(), Root: arrRoot(et), Path: []Step{{Idx: BVConst(0, 64)}}, Elem: et}
		type cell struct {
			key  string
			srt  *Sort
			rest []*Term // constant sub-indices (array-typed fields of the element)
		}
		var cells []cell
		st.walk(pi, et, func(key string, idx []*Term, srt *Sort) {
			cells = append(cells, cell{key, srt, append([]*Term(nil), idx[2:]...)})
		})
		olds := map[string]*Term{}
		for _, c := range cells {
			olds[c.key] = st.cellArr(c.key, 2+len(c.rest), c.srt)
		}
		e.havocRegion(st, et, s.sRef(), s.sOff(), s.sLen())
		inRange := And(Sle(BVConst(0, 64), k), Slt(k, s.sLen()))
		var eqs []*Term
		eqs = append(eqs, Sle(BVConst(0, 64), pk), Slt(pk, s.sLen()))
		for _, c := range cells {
			nw := st.cellArr(c.key, 2+len(c.rest), c.srt)
			ni := Concat(s.sRef(), Add(s.sOff(), k))
			oi := Concat(s.sRef(), Add(s.sOff(), pk))
			for _, r := range c.rest {
				ni = Concat(ni, r)
				oi = Concat(oi, r)
			}
			eqs = append(eqs, Eq(Select(nw, ni), Select(olds[c.key], oi)))
		}
		body := Implies(inRange, And(eqs...))
		q := Forall([]*Term{k}, body)
		if q.Op == OForall {
			quantInfo[q] = &qInfo{Vars: []qVar{{"k", types.Typ[types.Int], []*Term{k}}}, Body: body}
		}
		st.assume(q)
		st.note("sort.Slice: elements permuted (order by the less function not assumed)")
		return Val{fn.Signature.Results(), nil}, true
	}
}
