package main

// Replay of counterexamples against the real code: the solver's model for the function inputs is turned
// into an in-package Go test that is injected with `go test -overlay` (nothing is written into the repository).

import (
	"encoding/json"
	"flag"
	"fmt"
	"go/types"
	"os"
	"os/exec"
	"path/filepath"
	"strconv"
	"strings"
	"time"

	"golang.org/x/tools/go/ssa"
)

// inputTerm names one scalar piece of the function's input state.
type inputTerm struct {
	Path string // Go lvalue path, e.g. "hcb.Count", "data[3]", "len:data"
	T    types.Type
	Term *Term
}

// replayInfo is attached to obligations of a function and describes how to rebuild its inputs.
type replayInfo struct {
	Fn      *ssa.Function
	Inputs  []inputTerm
	Setup   []string // Go statements allocating the parameter objects
	Params  []string // argument expressions for the call
	Recv    string
	PkgDir  string
	PkgName string
	Unsup   string
}

func typeStr(T types.Type, pkg *types.Package) string {
	return types.TypeString(T, func(p *types.Package) string {
		if p == pkg {
			return ""
		}
		return p.Name()
	})
}

// buildReplayInfo walks the parameters and collects scalar input terms (evaluated in the entry state).
func (e *Engine) buildReplayInfo(st *State, fn *ssa.Function, fr *Frame) *replayInfo {
	ri := &replayInfo{Fn: fn}
	if fn.Package() == nil {
		ri.Unsup = "no package"
		return ri
	}
	pkg := fn.Package().Pkg
	ri.PkgName = pkg.Name()
	if fn.Parent() != nil {
		ri.Unsup = "anonymous function"
		return ri
	}
	budget := 96
	var walkVal func(path string, v Val, depth int)
	var walkMem func(path string, pi *PtrInfo, T types.Type, depth int)
	addScalar := func(path string, T types.Type, t *Term) {
		if budget <= 0 {
			return
		}
		budget--
		ri.Inputs = append(ri.Inputs, inputTerm{path, T, t})
	}
	walkVal = func(path string, v Val, depth int) {
		switch u := v.T.Underlying().(type) {
		case *types.Basic:
			if u.Info()&(types.IsInteger|types.IsBoolean) != 0 {
				addScalar(path, v.T, v.t())
			} else if u.Info()&types.IsString != 0 {
				addScalar("strlen:"+path, types.Typ[types.Int], strLen(v.t()))
			} else if u.Info()&types.IsFloat != 0 {
				addScalar(path, v.T, v.t())
			}
		case *types.Struct:
			for i := 0; i < u.NumFields(); i++ {
				walkVal(path+"."+u.Field(i).Name(), v.field(i), depth)
			}
		case *types.Array:
			for i := 0; i < int(u.Len()) && i < 16; i++ {
				walkVal(fmt.Sprintf("%s[%d]", path, i), v.arrayElem(i), depth)
			}
		case *types.Pointer:
			if depth >= 3 {
				return
			}
			addScalar("nil:"+path, types.Typ[types.Bool], Eq(v.t(), BVConst(0, 64)))
			walkMem("(*"+path+")", ptrInfo(v), u.Elem(), depth+1)
		case *types.Slice:
			addScalar("len:"+path, types.Typ[types.Int], v.sLen())
			addScalar("nil:"+path, types.Typ[types.Bool], Eq(v.sRef(), BVConst(0, 64)))
			if depth >= 3 {
				return
			}
			n := 8
			if b, ok := u.Elem().Underlying().(*types.Basic); ok && b.Info()&types.IsInteger != 0 {
				n = 24
			}
			for i := 0; i < n; i++ {
				pi := e.elemPI(v, BVConst(uint64(i), 64))
				walkMem(fmt.Sprintf("%s[%d]", path, i), pi, u.Elem(), depth+1)
			}
		case *types.Interface:
			addScalar("tag:"+path, types.Typ[types.Uint32], v.iTag())
		}
	}
	walkMem = func(path string, pi *PtrInfo, T types.Type, depth int) {
		if budget <= 0 {
			return
		}
		walkVal(path, st.loadAt(pi, T), depth)
	}
	for i, p := range fn.Params {
		name := p.Name()
		if name == "" || name == "_" {
			name = fmt.Sprintf("arg%d", i)
		}
		walkVal(name, fr.regs[p], 0)
		if i == 0 && fn.Signature.Recv() != nil {
			ri.Recv = name
		} else {
			ri.Params = append(ri.Params, name)
		}
	}
	return ri
}

// ---------- model parsing ----------

type sexp struct {
	atom string
	list []*sexp
}

func parseSexps(s string) []*sexp {
	var out []*sexp
	i := 0
	var parse func() *sexp
	skip := func() {
		for i < len(s) && (s[i] == ' ' || s[i] == '\n' || s[i] == '\t' || s[i] == '\r') {
			i++
		}
	}
	parse = func() *sexp {
		skip()
		if i >= len(s) {
			return nil
		}
		if s[i] == '(' {
			i++
			n := &sexp{list: []*sexp{}}
			for {
				skip()
				if i >= len(s) {
					return n
				}
				if s[i] == ')' {
					i++
					return n
				}
				c := parse()
				if c == nil {
					return n
				}
				n.list = append(n.list, c)
			}
		}
		if s[i] == '|' {
			j := i + 1
			for j < len(s) && s[j] != '|' {
				j++
			}
			a := s[i : j+1]
			i = j + 1
			return &sexp{atom: a}
		}
		if s[i] == '"' {
			j := i + 1
			for j < len(s) && s[j] != '"' {
				j++
			}
			a := s[i : j+1]
			i = j + 1
			return &sexp{atom: a}
		}
		j := i
		for j < len(s) && s[j] != ' ' && s[j] != '\n' && s[j] != '\t' && s[j] != '(' && s[j] != ')' {
			j++
		}
		a := s[i:j]
		i = j
		return &sexp{atom: a}
	}
	for {
		x := parse()
		if x == nil {
			break
		}
		out = append(out, x)
	}
	return out
}

func sexpValue(x *sexp) (uint64, bool) {
	if x.atom != "" {
		a := x.atom
		switch {
		case strings.HasPrefix(a, "#x"):
			if len(a) > 18 {
				a = "#x" + a[len(a)-16:]
			}
			v, err := strconv.ParseUint(a[2:], 16, 64)
			return v, err == nil
		case strings.HasPrefix(a, "#b"):
			b := a[2:]
			if len(b) > 64 {
				b = b[len(b)-64:]
			}
			v, err := strconv.ParseUint(b, 2, 64)
			return v, err == nil
		case a == "true":
			return 1, true
		case a == "false":
			return 0, true
		}
		return 0, false
	}
	// (_ bv123 64)
	if len(x.list) == 3 && x.list[0].atom == "_" && strings.HasPrefix(x.list[1].atom, "bv") {
		v, err := strconv.ParseUint(x.list[1].atom[2:], 10, 64)
		return v, err == nil
	}
	return 0, false
}

// parseInputValues extracts the values of the extra get-value request (the last s-expression list of the output).
func parseInputValues(out string, n int) ([]uint64, []bool) {
	xs := parseSexps(out)
	vals := make([]uint64, n)
	oks := make([]bool, n)
	// find the last list with exactly n pairs
	for k := len(xs) - 1; k >= 0; k-- {
		x := xs[k]
		if x.atom == "" && len(x.list) == n {
			good := true
			for _, p := range x.list {
				if p.atom != "" || len(p.list) != 2 {
					good = false
				}
			}
			if !good {
				continue
			}
			for i, p := range x.list {
				vals[i], oks[i] = sexpValue(p.list[1])
			}
			return vals, oks
		}
	}
	return vals, oks
}

// ---------- Go test generation ----------

type goGen struct {
	olds  []string // statements computing old values
	nold  int
	pkg   *types.Package
	specs map[string]*Contract
	res   []string
}

func (g *goGen) expr(x Expr) (string, error) {
	switch n := x.(type) {
	case *EInt:
		return fmt.Sprintf("%d", n.V), nil
	case *EFloat:
		return n.S, nil
	case *EStr:
		return strconv.Quote(n.S), nil
	case *EIdent:
		if n.Name == "result" && len(g.res) == 1 {
			return g.res[0], nil
		}
		return n.Name, nil
	case *EUnary:
		s, err := g.expr(n.X)
		if err != nil {
			return "", err
		}
		if n.Op == "()" {
			return "(" + s + ")", nil
		}
		return "(" + n.Op + s + ")", nil
	case *EBinary:
		a, err := g.expr(n.X)
		if err != nil {
			return "", err
		}
		b, err := g.expr(n.Y)
		if err != nil {
			return "", err
		}
		switch n.Op {
		case "==>":
			return "(!(" + a + ") || (" + b + "))", nil
		case "<==>":
			return "((" + a + ") == (" + b + "))", nil
		}
		return "(" + a + " " + n.Op + " " + b + ")", nil
	case *ECond:
		c, err := g.expr(n.C)
		if err != nil {
			return "", err
		}
		a, err := g.expr(n.A)
		if err != nil {
			return "", err
		}
		b, err := g.expr(n.B)
		if err != nil {
			return "", err
		}
		return "func() interface{} { if " + c + " { return " + a + " }; return " + b + " }()", fmt.Errorf("conditional expression has no typed Go form")
	case *ESel:
		if strings.HasPrefix(n.Name, "$") {
			return "", fmt.Errorf("ghost field %s has no Go form", n.Name)
		}
		s, err := g.expr(n.X)
		if err != nil {
			return "", err
		}
		return s + "." + n.Name, nil
	case *EIndex:
		s, err := g.expr(n.X)
		if err != nil {
			return "", err
		}
		i, err := g.expr(n.I)
		if err != nil {
			return "", err
		}
		return s + "[" + i + "]", nil
	case *ESlice:
		s, err := g.expr(n.X)
		if err != nil {
			return "", err
		}
		lo, hi := "", ""
		if n.Lo != nil {
			if lo, err = g.expr(n.Lo); err != nil {
				return "", err
			}
		}
		if n.Hi != nil {
			if hi, err = g.expr(n.Hi); err != nil {
				return "", err
			}
		}
		return s + "[" + lo + ":" + hi + "]", nil
	case *ECall:
		if id, ok := n.Fun.(*EIdent); ok {
			switch id.Name {
			case "old":
				inner := &goGen{pkg: g.pkg, specs: g.specs, res: g.res}
				s, err := inner.expr(n.Args[0])
				if err != nil {
					return "", err
				}
				name := fmt.Sprintf("govcOld%d", g.nold)
				g.nold++
				g.olds = append(g.olds, name+" := "+s)
				return name, nil
			case "is", "has", "closed", "closes", "uf", "ref", "ite", "isFreshRef":
				return "", fmt.Errorf("%s() has no Go form", id.Name)
			}
			if g.specs[id.Name] != nil {
				return "", fmt.Errorf("spec function %s has no Go form", id.Name)
			}
		}
		f, err := g.expr(n.Fun)
		if err != nil {
			return "", err
		}
		var as []string
		for _, a := range n.Args {
			s, err := g.expr(a)
			if err != nil {
				return "", err
			}
			as = append(as, s)
		}
		return f + "(" + strings.Join(as, ", ") + ")", nil
	case *EQuant:
		return "", fmt.Errorf("quantifier has no Go form")
	case *ETypeAssert:
		s, err := g.expr(n.X)
		if err != nil {
			return "", err
		}
		return s + ".(" + n.T + ")", nil
	case *EType:
		return n.T, nil
	}
	return "", fmt.Errorf("no Go form for %T", x)
}

func goLit(T types.Type, v uint64, pkg *types.Package) string {
	ts := typeStr(T, pkg)
	if isBool(T) {
		if v != 0 {
			return "true"
		}
		return "false"
	}
	if isSigned(T) {
		w := leafSorts(T)[0].W
		return fmt.Sprintf("%s(%d)", ts, sx(v, w))
	}
	return fmt.Sprintf("%s(%d)", ts, v)
}

// genReplayTest builds the Go source of the replay test. clause == nil: panic obligation (expect no panic).
func (e *Engine) genReplayTest(ri *replayInfo, vals []uint64, oks []bool, clause *Clause, oblName string) (string, error) {
	if ri.Unsup != "" {
		return "", fmt.Errorf("%s", ri.Unsup)
	}
	fn := ri.Fn
	pkg := fn.Package().Pkg
	var sb strings.Builder
	fmt.Fprintf(&sb, "package %s\n\nimport \"testing\"\n\n", pkg.Name())
	fmt.Fprintf(&sb, "// generated by govc: replay of obligation %s\n", oblName)
	sb.WriteString("func TestGovcReplay(t *testing.T) {\n")
	// declare parameters
	nilOf := map[string]bool{}
	lenOf := map[string]uint64{}
	for i, in := range ri.Inputs {
		if !oks[i] {
			continue
		}
		if strings.HasPrefix(in.Path, "nil:") {
			nilOf[in.Path[4:]] = vals[i] != 0
		}
		if strings.HasPrefix(in.Path, "len:") {
			lenOf[in.Path[4:]] = vals[i]
		}
		if strings.HasPrefix(in.Path, "tag:") {
			return "", fmt.Errorf("interface-typed input %s cannot be reconstructed", in.Path[4:])
		}
	}
	for i, p := range fn.Params {
		name := p.Name()
		if name == "" || name == "_" {
			name = fmt.Sprintf("arg%d", i)
		}
		T := p.Type()
		switch u := T.Underlying().(type) {
		case *types.Pointer:
			if nilOf[name] {
				fmt.Fprintf(&sb, "\tvar %s %s\n", name, typeStr(T, pkg))
			} else {
				fmt.Fprintf(&sb, "\t%s := new(%s)\n", name, typeStr(u.Elem(), pkg))
			}
		case *types.Slice:
			n := lenOf[name]
			if n > 1<<20 {
				return "", fmt.Errorf("model needs a slice of %d elements", n)
			}
			if nilOf[name] && n == 0 {
				fmt.Fprintf(&sb, "\tvar %s %s\n", name, typeStr(T, pkg))
			} else {
				fmt.Fprintf(&sb, "\t%s := make(%s, %d)\n", name, typeStr(T, pkg), n)
			}
		default:
			fmt.Fprintf(&sb, "\tvar %s %s\n", name, typeStr(T, pkg))
		}
		fmt.Fprintf(&sb, "\t_ = %s\n", name)
	}
	// assign scalar inputs
	for i, in := range ri.Inputs {
		if !oks[i] || strings.Contains(in.Path, ":") {
			continue
		}
		// skip elements beyond slice lengths and fields behind nil pointers
		skip := false
		for base, isNil := range nilOf {
			if isNil && (strings.HasPrefix(in.Path, "(*"+base+")") || strings.HasPrefix(in.Path, base+"[")) {
				skip = true
			}
		}
		for base, n := range lenOf {
			if strings.HasPrefix(in.Path, base+"[") {
				rest := in.Path[len(base)+1:]
				if j := strings.Index(rest, "]"); j >= 0 {
					if k, err := strconv.Atoi(rest[:j]); err == nil && uint64(k) >= n {
						skip = true
					}
				}
			}
		}
		if skip {
			continue
		}
		// nested pointers/slices inside structs are not allocated by this generator
		if strings.Count(in.Path, "(*") > 1 {
			continue
		}
		fmt.Fprintf(&sb, "\t%s = %s\n", in.Path, goLit(in.T, vals[i], pkg))
	}
	// results
	rs := fn.Signature.Results()
	rnames := resultNames(fn)
	gen := &goGen{pkg: pkg, specs: e.cs.Specs, res: rnames}
	cond := ""
	if clause != nil {
		c, err := gen.expr(clause.Expr)
		if err != nil {
			return "", err
		}
		cond = c
	}
	for _, o := range gen.olds {
		fmt.Fprintf(&sb, "\t%s\n", o)
	}
	call := ""
	var args []string
	for _, p := range ri.Params {
		args = append(args, p)
	}
	if fn.Signature.Variadic() && len(args) > 0 {
		args[len(args)-1] += "..."
	}
	if ri.Recv != "" {
		call = fmt.Sprintf("%s.%s(%s)", ri.Recv, fn.Name(), strings.Join(args, ", "))
	} else {
		call = fmt.Sprintf("%s(%s)", fn.Name(), strings.Join(args, ", "))
	}
	sb.WriteString("\tdefer func() {\n\t\tif r := recover(); r != nil {\n\t\t\tt.Fatalf(\"GOVC-REPLAY-VIOLATION panic: %v\", r)\n\t\t}\n\t}()\n")
	if rs.Len() > 0 {
		fmt.Fprintf(&sb, "\t%s := %s\n", strings.Join(rnames, ", "), call)
		for _, r := range rnames {
			fmt.Fprintf(&sb, "\t_ = %s\n", r)
		}
	} else {
		fmt.Fprintf(&sb, "\t%s\n", call)
	}
	if cond != "" {
		fmt.Fprintf(&sb, "\tif !(%s) {\n\t\tt.Fatalf(\"GOVC-REPLAY-VIOLATION postcondition violated: %%s\", %s)\n\t}\n", cond, strconv.Quote(clause.Text))
	}
	sb.WriteString("}\n")
	return sb.String(), nil
}

func pkgDirOf(repo string, pkg *types.Package) string {
	const mod = "github.com/dtn7/dtn7-go/"
	if strings.HasPrefix(pkg.Path(), mod) {
		return filepath.Join(repo, strings.TrimPrefix(pkg.Path(), mod))
	}
	return ""
}

// runReplayTest injects the test via -overlay and runs it; returns (violated, output).
func runReplayTest(repo, pkgDir, src, workDir string) (bool, string) {
	os.MkdirAll(workDir, 0o755)
	testFile := filepath.Join(workDir, "zz_govc_replay_test.go")
	if err := os.WriteFile(testFile, []byte(src), 0o644); err != nil {
		return false, err.Error()
	}
	ov := map[string]map[string]string{"Replace": {filepath.Join(pkgDir, "zz_govc_replay_test.go"): testFile}}
	ovFile := filepath.Join(workDir, "overlay.json")
	b, _ := json.Marshal(ov)
	os.WriteFile(ovFile, b, 0o644)
	cmd := exec.Command("bash", "-c", fmt.Sprintf("ulimit -v 8000000; cd %q && go test -overlay %q -vet=off -count=1 -timeout 60s -run '^TestGovcReplay$' .", pkgDir, ovFile))
	cmd.Env = append(os.Environ(), "GOFLAGS=-mod=mod", "GOPROXY=off", "GOSUMDB=off", "GOTOOLCHAIN=local")
	done := make(chan struct{})
	var out []byte
	go func() { out, _ = cmd.CombinedOutput(); close(done) }()
	select {
	case <-done:
	case <-time.After(120 * time.Second):
		if cmd.Process != nil {
			cmd.Process.Kill()
		}
		return true, "GOVC-REPLAY-VIOLATION replay did not terminate within 120 s"
	}
	o := string(out)
	if strings.Contains(o, "GOVC-REPLAY-VIOLATION") || strings.Contains(o, "panic:") || strings.Contains(o, "test timed out") || strings.Contains(o, "out of memory") {
		return true, o
	}
	return false, o
}

func tryReplay(dir string, cfg *config, e *Engine, r *summaryRow) (string, bool) {
	for _, o := range r.inst {
		if o.Status != "sat" || o.replay == nil || len(o.inVals) == 0 {
			continue
		}
		ri := o.replay
		if ri.Fn.Package() == nil {
			continue
		}
		pkgDir := pkgDirOf(cfg.repo, ri.Fn.Package().Pkg)
		if pkgDir == "" {
			continue
		}
		src, err := e.genReplayTest(ri, o.inVals, o.inOk, o.clause, o.Name)
		if err != nil {
			o.Notes = append(o.Notes, "replay not generated: "+err.Error())
			r.Notes = append(r.Notes, "replay not generated: "+err.Error())
			continue
		}
		name := strings.NewReplacer("/", "_", "*", "", "(", "", ")", "", "#", "-", ":", "_", "$", "_", "@", "_").Replace(r.Name)
		work := filepath.Join(cfg.verif, "work", "replay", cfg.prop, name)
		violated, out := runReplayTest(cfg.repo, pkgDir, src, work)
		if !violated {
			r.Notes = append(r.Notes, "model did not replay on the real code: "+firstLines(out, 4))
			continue
		}
		p := filepath.Join(dir, name+".json")
		inputs := map[string]string{}
		for i, in := range ri.Inputs {
			if o.inOk[i] {
				inputs[in.Path] = fmt.Sprintf("%d", o.inVals[i])
			}
		}
		writeJSON(p, map[string]interface{}{
			"property": cfg.prop, "obligation": r.Name, "kind": r.Kind, "status": "sat", "at": r.Pos, "clause": r.Clause,
			"reason": "counterexample replayed on the real code", "failing_input": inputs, "test_source": src,
			"package_dir": pkgDir, "run_output": out, "model": o.Model,
		})
		return p, true
	}
	return "", false
}

func cmdReplay(args []string) int {
	fs := flag.NewFlagSet("replay", flag.ExitOnError)
	repo := fs.String("repo", "/repo", "")
	verif := fs.String("verif", "/verif", "")
	fs.Parse(args)
	if fs.NArg() < 1 {
		fmt.Println("usage: govc replay <file>")
		return 2
	}
	data, err := os.ReadFile(fs.Arg(0))
	if err != nil {
		fmt.Println(err)
		return 2
	}
	var rf map[string]interface{}
	json.Unmarshal(data, &rf)
	fmt.Printf("property=%v obligation=%v\nreason: %v\nclause: %v\n", rf["property"], rf["obligation"], rf["reason"], rf["clause"])
	src, _ := rf["test_source"].(string)
	pkgDir, _ := rf["package_dir"].(string)
	if src == "" {
		fmt.Println("no failing input was found for this obligation; solver output:")
		fmt.Println(rf["solver_output"])
		return 1
	}
	if strings.HasPrefix(pkgDir, "/repo") && *repo != "/repo" {
		pkgDir = *repo + strings.TrimPrefix(pkgDir, "/repo")
	}
	violated, out := runReplayTest(*repo, pkgDir, src, filepath.Join(*verif, "work", "replay", "manual"))
	fmt.Println(out)
	if violated {
		fmt.Println("REPLAY: violation reproduced")
		return 1
	}
	fmt.Println("REPLAY: not reproduced on this tree")
	return 0
}
