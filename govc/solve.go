package main

// Solver back ends: z3-new (5.1), z3 (4.8.12), cvc5 raced per obligation.

import (
	"bytes"
	"context"
	"fmt"
	"os"
	"os/exec"
	"path/filepath"
	"regexp"
	"sort"
	"strings"
	"sync"
	"time"
)

type solverSpec struct {
	name string
	args func(file string, timeoutS int, seed int) []string
}

var solvers = []solverSpec{
	{"z3-new", func(f string, t, seed int) []string {
		return []string{"z3-new", fmt.Sprintf("-T:%d", t), fmt.Sprintf("smt.random_seed=%d", seed), fmt.Sprintf("sat.random_seed=%d", seed), f}
	}},
	{"cvc5", func(f string, t, seed int) []string {
		return []string{"cvc5", fmt.Sprintf("--tlimit=%d", t*1000), fmt.Sprintf("--seed=%d", seed), "--produce-models", f}
	}},
	{"z3", func(f string, t, seed int) []string {
		return []string{"z3", fmt.Sprintf("-T:%d", t), fmt.Sprintf("smt.random_seed=%d", seed), f}
	}},
}

type solveResult struct {
	status string // unsat sat unknown timeout error
	solver string
	secs   float64
	output string
}

func runOne(ctx context.Context, s solverSpec, file string, timeoutS, seed int) solveResult {
	a := s.args(file, timeoutS, seed)
	cctx, cancel := context.WithTimeout(ctx, time.Duration(timeoutS+2)*time.Second)
	defer cancel()
	cmd := exec.CommandContext(cctx, a[0], a[1:]...)
	var out bytes.Buffer
	cmd.Stdout = &out
	cmd.Stderr = &out
	t0 := time.Now()
	_ = cmd.Run()
	el := time.Since(t0).Seconds()
	o := out.String()
	first := strings.TrimSpace(strings.SplitN(o, "\n", 2)[0])
	st := "unknown"
	switch first {
	case "unsat":
		st = "unsat"
	case "sat":
		st = "sat"
	case "unknown":
		st = "unknown"
	case "timeout":
		st = "timeout"
	default:
		if cctx.Err() != nil {
			st = "timeout"
		} else if strings.Contains(o, "timeout") || strings.Contains(o, "interrupted") {
			st = "timeout"
		} else {
			st = "error"
		}
	}
	return solveResult{st, s.name, el, o}
}

// solveQuery races the solvers; the first definitive answer wins.
func solveQuery(file string, timeoutS, seed int, quickFirst bool) solveResult {
	if quickFirst {
		// most obligations are easy: try one solver briefly before paying for the race
		r := runOne(context.Background(), solvers[0], file, 3, seed)
		if r.status == "unsat" || r.status == "sat" {
			return r
		}
	}
	ctx, cancel := context.WithCancel(context.Background())
	defer cancel()
	ch := make(chan solveResult, len(solvers))
	for _, s := range solvers {
		go func(s solverSpec) { ch <- runOne(ctx, s, file, timeoutS, seed) }(s)
	}
	var last solveResult
	var outs []string
	for range solvers {
		r := <-ch
		outs = append(outs, fmt.Sprintf("[%s %.2fs] %s", r.solver, r.secs, firstLines(r.output, 3)))
		if r.status == "unsat" || r.status == "sat" {
			cancel()
			return r
		}
		if last.status == "" || r.status == "unknown" {
			last = r
		}
	}
	last.output = strings.Join(outs, "\n")
	if last.status == "error" {
		last.status = "unknown"
	}
	return last
}

func firstLines(s string, n int) string {
	ls := strings.Split(strings.TrimSpace(s), "\n")
	if len(ls) > n {
		ls = ls[:n]
	}
	return strings.Join(ls, " | ")
}

var modelRe = regexp.MustCompile(`\(\s*(\|[^|]*\||[^\s()]+)\s+(#x[0-9a-fA-F]+|#b[01]+|true|false|\(_ bv\d+ \d+\)|[-0-9./() ]+)\s*\)`)

func parseModel(out string) map[string]string {
	m := map[string]string{}
	for _, mm := range modelRe.FindAllStringSubmatch(out, -1) {
		m[strings.Trim(mm[1], "|")] = strings.TrimSpace(mm[2])
	}
	return m
}

// dischargeAll solves the obligations: all instances (paths) of one obligation name are first tried as a single
// batched query (unsat = every instance holds); only names whose batch is not unsat are solved instance by instance.
func dischargeAll(obls []*Obligation, dir string, timeoutS, seed, workers int) {
	os.MkdirAll(dir, 0o755)
	groups := map[string][]*Obligation{}
	var order []string
	for _, o := range obls {
		if o.Trivial || o.Kind == "cover" || o.Kind == "canary" {
			continue
		}
		if _, ok := groups[o.Name]; !ok {
			order = append(order, o.Name)
		}
		groups[o.Name] = append(groups[o.Name], o)
	}
	type bjob struct {
		name string
		file string
		os   []*Obligation
	}
	var bjobs []bjob
	for gi, name := range order {
		g := groups[name]
		if len(g) < 2 {
			continue
		}
		var alts []*Term
		for _, o := range g {
			alts = append(alts, And(append(append([]*Term{}, o.PC...), Not(o.Goal))...))
		}
		q := BuildQuery(nil, Not(Or(alts...)), false, nil)
		f := filepath.Join(dir, fmt.Sprintf("b%05d.smt2", gi))
		hdr := fmt.Sprintf("; batched obligation %s (%d instances)\n", name, len(g))
		if err := os.WriteFile(f, []byte(hdr+q), 0o644); err != nil {
			panic(err)
		}
		bjobs = append(bjobs, bjob{name, f, g})
	}
	{
		var wg sync.WaitGroup
		sem := make(chan struct{}, workers)
		for _, j := range bjobs {
			wg.Add(1)
			sem <- struct{}{}
			go func(j bjob) {
				defer wg.Done()
				defer func() { <-sem }()
				bt := timeoutS
				if bt > 6 {
					bt = 6
				}
				r := solveQuery(j.file, bt, seed, true)
				if r.status == "unsat" {
					for _, o := range j.os {
						o.Status = "unsat"
						o.Solver = r.solver
						o.Time = r.secs / float64(len(j.os))
						o.Query = j.file
						o.batched = true
					}
				}
			}(j)
		}
		wg.Wait()
	}
	dischargeEach(obls, dir, timeoutS, seed, workers)
}

func dischargeEach(obls []*Obligation, dir string, timeoutS, seed, workers int) {
	os.MkdirAll(dir, 0o755)
	var wg sync.WaitGroup
	sem := make(chan struct{}, workers)
	// query construction is sequential (term tables are not thread safe)
	type job struct {
		o    *Obligation
		file string
	}
	var jobs []job
	for i, o := range obls {
		if o.Trivial || o.batched {
			if o.batched {
				o.PC = nil
			}
			continue
		}
		wantModel := true
		var extra []*Term
		if o.replay != nil && o.replay.Unsup == "" && o.Kind != "cover" && o.Kind != "canary" {
			for _, in := range o.replay.Inputs {
				extra = append(extra, in.Term)
			}
		}
		q := BuildQuery(o.PC, o.Goal, wantModel, extra)
		f := filepath.Join(dir, fmt.Sprintf("q%05d.smt2", i))
		hdr := fmt.Sprintf("; obligation %s\n; kind %s at %s\n; clause: %s\n", o.Name, o.Kind, o.Pos, o.Clause)
		if err := os.WriteFile(f, []byte(hdr+q), 0o644); err != nil {
			panic(err)
		}
		o.Query = f
		jobs = append(jobs, job{o, f})
	}
	// cover obligations need only one satisfiable instance per name: try instances one after the other
	covers := map[string][]job{}
	var coverOrder []string
	var plain []job
	for _, j := range jobs {
		if j.o.Kind == "cover" {
			if _, ok := covers[j.o.Name]; !ok {
				coverOrder = append(coverOrder, j.o.Name)
			}
			covers[j.o.Name] = append(covers[j.o.Name], j)
		} else {
			plain = append(plain, j)
		}
	}
	run := func(j job) {
		r := solveQuery(j.file, timeoutS, seed, true)
		j.o.Status = r.status
		j.o.Solver = r.solver
		j.o.Time = r.secs
		if r.status == "sat" {
			j.o.Model = parseModel(r.output)
			if j.o.replay != nil && j.o.replay.Unsup == "" && len(j.o.replay.Inputs) > 0 {
				j.o.inVals, j.o.inOk = parseInputValues(r.output, len(j.o.replay.Inputs))
			}
		}
		if r.status != "unsat" && r.status != "sat" {
			j.o.Notes = append(j.o.Notes, "solver output: "+firstLines(r.output, 6))
		}
	}
	_ = run
	for _, name := range coverOrder {
		wg.Add(1)
		sem <- struct{}{}
		go func(js []job) {
			defer wg.Done()
			defer func() { <-sem }()
			tried := 0
			for _, j := range js {
				if tried >= 24 {
					break
				}
				tried++
				// satisfiability is all we need: one quick attempt per instance
				r := runOne(context.Background(), solvers[0], j.file, 5, seed)
				j.o.Status = r.status
				j.o.Solver = r.solver
				j.o.Time = r.secs
				if j.o.Status == "sat" {
					break
				}
			}
		}(covers[name])
	}
	// phase A: every obligation gets a short attempt with one solver (most are easy) at full parallelism
	record := func(j job, r solveResult) {
		j.o.Status = r.status
		j.o.Solver = r.solver
		j.o.Time += r.secs
		if r.status == "sat" {
			j.o.Model = parseModel(r.output)
			if j.o.replay != nil && j.o.replay.Unsup == "" && len(j.o.replay.Inputs) > 0 {
				j.o.inVals, j.o.inOk = parseInputValues(r.output, len(j.o.replay.Inputs))
			}
		}
		if r.status != "unsat" && r.status != "sat" {
			j.o.Notes = append(j.o.Notes, "solver output: "+firstLines(r.output, 6))
		}
	}
	var hard []job
	var mu sync.Mutex
	for _, j := range plain {
		wg.Add(1)
		sem <- struct{}{}
		go func(j job) {
			defer wg.Done()
			defer func() { <-sem }()
			r := runOne(context.Background(), solvers[0], j.file, 3, seed)
			if r.status == "unsat" || r.status == "sat" {
				record(j, r)
				return
			}
			j.o.Time += r.secs
			mu.Lock()
			hard = append(hard, j)
			mu.Unlock()
		}(j)
	}
	wg.Wait()
	// phase A2: obligations whose path condition carries several quantified assumptions are first tried with the
	// quantifier-free facts plus one or two of the quantified assumptions only (dropping assumptions is sound, and the
	// few relevant invariants usually suffice); queries are generated here, sequentially.
	// phase A1: ground instantiation (see inst.go): quantifier-free reduced queries
	var afterGround []job
	skipSubsets := map[*Obligation]bool{}
	type gjob struct {
		j     job
		files []string
	}
	var gjobs []gjob
	for _, j := range hard {
		if j.o.Kind == "cover" || j.o.Kind == "canary" {
			afterGround = append(afterGround, j)
			continue
		}
		var files []string
		for lvl, narrow := range []bool{true, false} {
			as, goal, ok := groundQuery(j.o, narrow)
			if !ok {
				continue
			}
			q := BuildQuery(as, goal, false, nil)
			f := strings.TrimSuffix(j.file, ".smt2") + fmt.Sprintf(".ground%d.smt2", lvl)
			os.WriteFile(f, []byte(fmt.Sprintf("; ground-instantiated reduced query (level %d) for %s\n", lvl, j.o.Name)+q), 0o644)
			files = append(files, f)
		}
		if len(files) == 0 {
			afterGround = append(afterGround, j)
			continue
		}
		gjobs = append(gjobs, gjob{j, files})
	}
	for _, g := range gjobs {
		wg.Add(1)
		sem <- struct{}{}
		go func(g gjob) {
			defer wg.Done()
			defer func() { <-sem }()
			var r solveResult
			for _, f := range g.files {
				r = solveQuery(f, 15, seed, false)
				if r.status == "unsat" {
					g.j.o.Status = "unsat"
					g.j.o.Solver = r.solver
					g.j.o.Time += r.secs
					g.j.o.Query = f
					g.j.o.Notes = append(g.j.o.Notes, "discharged by ground instantiation of the quantified assumptions")
					return
				}
				g.j.o.Time += r.secs
			}
			r.secs = 0
			g.j.o.Time += r.secs
			mu.Lock()
			if r.status == "sat" {
				// even the instantiated hypotheses admit a counter-model: assumption subsets will not help
				skipSubsets[g.j.o] = true
			}
			afterGround = append(afterGround, g.j)
			mu.Unlock()
		}(g)
	}
	wg.Wait()
	hard = afterGround
	type rjob struct {
		j     job
		files []string
	}
	var rjobs []rjob
	var stillHard []job
	for _, j := range hard {
		o := j.o
		var qf, qs []*Term
		for _, p := range o.PC {
			if hasQuant(p) {
				qs = append(qs, p)
			} else {
				qf = append(qf, p)
			}
		}
		if len(qs) < 2 || o.Kind == "cover" || o.Kind == "canary" || skipSubsets[o] {
			stillHard = append(stillHard, j)
			continue
		}
		// most relevant first: quantified assumptions sharing the most array / function symbols with the goal
		gs := symbolsOf(o.Goal)
		score := map[*Term]int{}
		for _, q := range qs {
			n := 0
			for sname := range symbolsOf(q) {
				if gs[sname] {
					n++
				}
			}
			score[q] = n
		}
		sort.SliceStable(qs, func(a, b int) bool { return score[qs[a]] > score[qs[b]] })
		if len(qs) > 12 {
			qs = qs[:12]
		}
		var subsets [][]*Term
		for _, q := range qs {
			subsets = append(subsets, []*Term{q})
		}
		type pr struct{ a, b, sc int }
		var prs []pr
		for a := 0; a < len(qs); a++ {
			for b := a + 1; b < len(qs); b++ {
				prs = append(prs, pr{a, b, score[qs[a]] + score[qs[b]]})
			}
		}
		sort.SliceStable(prs, func(x, y int) bool { return prs[x].sc > prs[y].sc })
		for _, p := range prs {
			subsets = append(subsets, []*Term{qs[p.a], qs[p.b]})
		}
		rj := rjob{j: j}
		for k, sub := range subsets {
			if k >= 28 {
				break
			}
			q := BuildQuery(append(append([]*Term{}, qf...), sub...), o.Goal, false, nil)
			f := strings.TrimSuffix(j.file, ".smt2") + fmt.Sprintf(".r%03d.smt2", k)
			os.WriteFile(f, []byte(fmt.Sprintf("; reduced query %d for %s\n", k, o.Name)+q), 0o644)
			rj.files = append(rj.files, f)
		}
		rjobs = append(rjobs, rj)
	}
	for _, j := range jobs {
		j.o.PC = nil
	}
	for _, rj := range rjobs {
		wg.Add(1)
		go func(rj rjob) {
			defer wg.Done()
			ctx, cancel := context.WithCancel(context.Background())
			defer cancel()
			found := make(chan solveResult, len(rj.files))
			var iw sync.WaitGroup
			for _, f := range rj.files {
				iw.Add(1)
				sem <- struct{}{}
				go func(f string) {
					defer iw.Done()
					defer func() { <-sem }()
					if ctx.Err() != nil {
						return
					}
					r := runOne(ctx, solvers[0], f, 20, seed)
					if r.status == "unsat" {
						r.output = f
						found <- r
						cancel()
					}
				}(f)
			}
			iw.Wait()
			select {
			case r := <-found:
				rj.j.o.Status = "unsat"
				rj.j.o.Solver = r.solver
				rj.j.o.Time += r.secs
				rj.j.o.Query = r.output
				rj.j.o.Notes = append(rj.j.o.Notes, "discharged from a subset of the quantified assumptions")
			default:
				mu.Lock()
				stillHard = append(stillHard, rj.j)
				mu.Unlock()
			}
			for _, f := range rj.files {
				if f != rj.j.o.Query {
					os.Remove(f)
				}
			}
		}(rj)
	}
	wg.Wait()
	// phase B: the hard ones are raced on all solvers with the full timeout, few at a time so that they get the cores
	hw := workers / 3
	if hw < 2 {
		hw = 2
	}
	hsem := make(chan struct{}, hw)
	for _, j := range stillHard {
		wg.Add(1)
		hsem <- struct{}{}
		go func(j job) {
			defer wg.Done()
			defer func() { <-hsem }()
			record(j, solveQuery(j.file, timeoutS, seed, false))
		}(j)
	}
	wg.Wait()
}

func hasQuant(t *Term) bool {
	seen := map[*Term]bool{}
	var rec func(t *Term) bool
	rec = func(t *Term) bool {
		if seen[t] {
			return false
		}
		seen[t] = true
		if t.Op == OForall || t.Op == OExists {
			return true
		}
		for _, a := range t.Args {
			if rec(a) {
				return true
			}
		}
		return false
	}
	return rec(t)
}

// symbolsOf collects the names of the free array / function symbols of a term.
func symbolsOf(t *Term) map[string]bool {
	out := map[string]bool{}
	seen := map[*Term]bool{}
	var rec func(t *Term)
	rec = func(t *Term) {
		if seen[t] {
			return
		}
		seen[t] = true
		if (t.Op == OVar && t.S.Kind == SArr) || t.Op == OApp {
			out[t.Name] = true
		}
		for _, a := range t.Args {
			rec(a)
		}
	}
	rec(t)
	return out
}
