package main

// Solver back ends: z3-new (5.1), z3 (4.8.12), cvc5 raced per obligation.

import (
	"bytes"
	"context"
	"fmt"
	"os"
	"os/exec"
	"path/filepath"
	"regexp"
	"strings"
	"sync"
	"time"
)

type solverSpec struct {
	name string
	args func(file string, timeoutS int, seed int) []string
}

var solvers = []solverSpec{
	{"z3-new", func(f string, t, seed int) []string {
		return []string{"z3-new", fmt.Sprintf("-T:%d", t), fmt.Sprintf("smt.random_seed=%d", seed), fmt.Sprintf("sat.random_seed=%d", seed), f}
	}},
	{"cvc5", func(f string, t, seed int) []string {
		return []string{"cvc5", fmt.Sprintf("--tlimit=%d", t*1000), fmt.Sprintf("--seed=%d", seed), "--produce-models", f}
	}},
	{"z3", func(f string, t, seed int) []string {
		return []string{"z3", fmt.Sprintf("-T:%d", t), fmt.Sprintf("smt.random_seed=%d", seed), f}
	}},
}

type solveResult struct {
	status string // unsat sat unknown timeout error
	solver string
	secs   float64
	output string
}

func runOne(ctx context.Context, s solverSpec, file string, timeoutS, seed int) solveResult {
	a := s.args(file, timeoutS, seed)
	cctx, cancel := context.WithTimeout(ctx, time.Duration(timeoutS+2)*time.Second)
	defer cancel()
	cmd := exec.CommandContext(cctx, a[0], a[1:]...)
	var out bytes.Buffer
	cmd.Stdout = &out
	cmd.Stderr = &out
	t0 := time.Now()
	_ = cmd.Run()
	el := time.Since(t0).Seconds()
	o := out.String()
	first := strings.TrimSpace(strings.SplitN(o, "\n", 2)[0])
	st := "unknown"
	switch first {
	case "unsat":
		st = "unsat"
	case "sat":
		st = "sat"
	case "unknown":
		st = "unknown"
	case "timeout":
		st = "timeout"
	default:
		if cctx.Err() != nil {
			st = "timeout"
		} else if strings.Contains(o, "timeout") || strings.Contains(o, "interrupted") {
			st = "timeout"
		} else {
			st = "error"
		}
	}
	return solveResult{st, s.name, el, o}
}

// solveQuery races the solvers; the first definitive answer wins.
func solveQuery(file string, timeoutS, seed int, quickFirst bool) solveResult {
	if quickFirst {
		// most obligations are easy: try one solver briefly before paying for the race
		r := runOne(context.Background(), solvers[0], file, 3, seed)
		if r.status == "unsat" || r.status == "sat" {
			return r
		}
	}
	ctx, cancel := context.WithCancel(context.Background())
	defer cancel()
	ch := make(chan solveResult, len(solvers))
	for _, s := range solvers {
		go func(s solverSpec) { ch <- runOne(ctx, s, file, timeoutS, seed) }(s)
	}
	var last solveResult
	var outs []string
	for range solvers {
		r := <-ch
		outs = append(outs, fmt.Sprintf("[%s %.2fs] %s", r.solver, r.secs, firstLines(r.output, 3)))
		if r.status == "unsat" || r.status == "sat" {
			cancel()
			return r
		}
		if last.status == "" || r.status == "unknown" {
			last = r
		}
	}
	last.output = strings.Join(outs, "\n")
	if last.status == "error" {
		last.status = "unknown"
	}
	return last
}

func firstLines(s string, n int) string {
	ls := strings.Split(strings.TrimSpace(s), "\n")
	if len(ls) > n {
		ls = ls[:n]
	}
	return strings.Join(ls, " | ")
}

var modelRe = regexp.MustCompile(`\(\s*(\|[^|]*\||[^\s()]+)\s+(#x[0-9a-fA-F]+|#b[01]+|true|false|\(_ bv\d+ \d+\)|[-0-9./() ]+)\s*\)`)

func parseModel(out string) map[string]string {
	m := map[string]string{}
	for _, mm := range modelRe.FindAllStringSubmatch(out, -1) {
		m[strings.Trim(mm[1], "|")] = strings.TrimSpace(mm[2])
	}
	return m
}

// dischargeAll solves the obligations: all instances (paths) of one obligation name are first tried as a single
// batched query (unsat = every instance holds); only names whose batch is not unsat are solved instance by instance.
func dischargeAll(obls []*Obligation, dir string, timeoutS, seed, workers int) {
	os.MkdirAll(dir, 0o755)
	groups := map[string][]*Obligation{}
	var order []string
	for _, o := range obls {
		if o.Trivial || o.Kind == "cover" || o.Kind == "canary" {
			continue
		}
		if _, ok := groups[o.Name]; !ok {
			order = append(order, o.Name)
		}
		groups[o.Name] = append(groups[o.Name], o)
	}
	type bjob struct {
		name string
		file string
		os   []*Obligation
	}
	var bjobs []bjob
	for gi, name := range order {
		g := groups[name]
		if len(g) < 2 {
			continue
		}
		var alts []*Term
		for _, o := range g {
			alts = append(alts, And(append(append([]*Term{}, o.PC...), Not(o.Goal))...))
		}
		q := BuildQuery(nil, Not(Or(alts...)), false, nil)
		f := filepath.Join(dir, fmt.Sprintf("b%05d.smt2", gi))
		hdr := fmt.Sprintf("; batched obligation %s (%d instances)\n", name, len(g))
		if err := os.WriteFile(f, []byte(hdr+q), 0o644); err != nil {
			panic(err)
		}
		bjobs = append(bjobs, bjob{name, f, g})
	}
	{
		var wg sync.WaitGroup
		sem := make(chan struct{}, workers)
		for _, j := range bjobs {
			wg.Add(1)
			sem <- struct{}{}
			go func(j bjob) {
				defer wg.Done()
				defer func() { <-sem }()
				bt := timeoutS
				if bt > 6 {
					bt = 6
				}
				r := solveQuery(j.file, bt, seed, true)
				if r.status == "unsat" {
					for _, o := range j.os {
						o.Status = "unsat"
						o.Solver = r.solver
						o.Time = r.secs / float64(len(j.os))
						o.Query = j.file
						o.batched = true
					}
				}
			}(j)
		}
		wg.Wait()
	}
	dischargeEach(obls, dir, timeoutS, seed, workers)
}

func dischargeEach(obls []*Obligation, dir string, timeoutS, seed, workers int) {
	os.MkdirAll(dir, 0o755)
	var wg sync.WaitGroup
	sem := make(chan struct{}, workers)
	// query construction is sequential (term tables are not thread safe)
	type job struct {
		o    *Obligation
		file string
	}
	var jobs []job
	for i, o := range obls {
		if o.Trivial || o.batched {
			if o.batched {
				o.PC = nil
			}
			continue
		}
		wantModel := true
		var extra []*Term
		if o.replay != nil && o.replay.Unsup == "" && o.Kind != "cover" && o.Kind != "canary" {
			for _, in := range o.replay.Inputs {
				extra = append(extra, in.Term)
			}
		}
		q := BuildQuery(o.PC, o.Goal, wantModel, extra)
		f := filepath.Join(dir, fmt.Sprintf("q%05d.smt2", i))
		hdr := fmt.Sprintf("; obligation %s\n; kind %s at %s\n; clause: %s\n", o.Name, o.Kind, o.Pos, o.Clause)
		if err := os.WriteFile(f, []byte(hdr+q), 0o644); err != nil {
			panic(err)
		}
		o.Query = f
		jobs = append(jobs, job{o, f})
		o.PC = nil // free memory
	}
	// cover obligations need only one satisfiable instance per name: try instances one after the other
	covers := map[string][]job{}
	var coverOrder []string
	var plain []job
	for _, j := range jobs {
		if j.o.Kind == "cover" {
			if _, ok := covers[j.o.Name]; !ok {
				coverOrder = append(coverOrder, j.o.Name)
			}
			covers[j.o.Name] = append(covers[j.o.Name], j)
		} else {
			plain = append(plain, j)
		}
	}
	run := func(j job) {
		r := solveQuery(j.file, timeoutS, seed, true)
		j.o.Status = r.status
		j.o.Solver = r.solver
		j.o.Time = r.secs
		if r.status == "sat" {
			j.o.Model = parseModel(r.output)
			if j.o.replay != nil && j.o.replay.Unsup == "" && len(j.o.replay.Inputs) > 0 {
				j.o.inVals, j.o.inOk = parseInputValues(r.output, len(j.o.replay.Inputs))
			}
		}
		if r.status != "unsat" && r.status != "sat" {
			j.o.Notes = append(j.o.Notes, "solver output: "+firstLines(r.output, 6))
		}
	}
	for _, name := range coverOrder {
		wg.Add(1)
		sem <- struct{}{}
		go func(js []job) {
			defer wg.Done()
			defer func() { <-sem }()
			for i, j := range js {
				if i >= 6 {
					break
				}
				run(j)
				if j.o.Status == "sat" {
					break
				}
			}
		}(covers[name])
	}
	for _, j := range plain {
		wg.Add(1)
		sem <- struct{}{}
		go func(j job) {
			defer wg.Done()
			defer func() { <-sem }()
			run(j)
		}(j)
	}
	wg.Wait()
}
