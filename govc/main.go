package main

import (
	"encoding/json"
	"flag"
	"fmt"
	"os"
	"path/filepath"
	"regexp"
	"sort"
	"strings"
	"time"

	"golang.org/x/tools/go/packages"
	"golang.org/x/tools/go/ssa"
	"golang.org/x/tools/go/ssa/ssautil"
)

type config struct {
	repo, verif, prop, tier, funcRe string
	seed                            int
	verbose                         bool
	timeout                         int
	keep                            bool
	updateBaseline                  bool
	workers                         int
}

func main() {
	if len(os.Args) < 2 {
		fmt.Println("usage: govc check|list|replay ...")
		os.Exit(2)
	}
	switch os.Args[1] {
	case "check":
		os.Exit(cmdCheck(os.Args[2:]))
	case "replay":
		os.Exit(cmdReplay(os.Args[2:]))
	default:
		fmt.Println("unknown command", os.Args[1])
		os.Exit(2)
	}
}

func cmdCheck(args []string) int {
	fs := flag.NewFlagSet("check", flag.ExitOnError)
	var cfg config
	fs.StringVar(&cfg.repo, "repo", "/repo", "repository root")
	fs.StringVar(&cfg.verif, "verif", "/verif", "verification root")
	fs.StringVar(&cfg.prop, "prop", "", "property id (C01...)")
	fs.StringVar(&cfg.tier, "tier", "quick", "quick|thorough")
	fs.StringVar(&cfg.funcRe, "func", "", "only functions matching this regexp")
	fs.IntVar(&cfg.seed, "seed", 0, "solver seed")
	fs.BoolVar(&cfg.verbose, "v", false, "verbose")
	fs.IntVar(&cfg.timeout, "timeout", 0, "per-obligation timeout (s)")
	fs.BoolVar(&cfg.keep, "keep", false, "keep SMT files")
	fs.BoolVar(&cfg.updateBaseline, "update-baseline", false, "record proved obligations into the baseline")
	fs.IntVar(&cfg.workers, "j", 12, "parallel solver jobs")
	fs.Parse(args)
	if cfg.timeout == 0 {
		cfg.timeout = 30
		if cfg.tier == "thorough" {
			cfg.timeout = 180
		}
	}
	if s := os.Getenv("VERIF_SEED"); s != "" && cfg.seed == 0 {
		fmt.Sscanf(s, "%d", &cfg.seed)
	}
	return runCheck(&cfg)
}

type loaded struct {
	prog  *ssa.Program
	pkgs  map[string]*ssa.Package
	funcs map[string]*ssa.Function
	fsetP *packages.Package
	ppkgs []*packages.Package
}

func loadProgram(repo string, patterns []string) (*loaded, error) {
	cfg := &packages.Config{Mode: packages.LoadAllSyntax, Dir: repo, BuildFlags: []string{"-tags=verif"},
		Env: append(os.Environ(), "GOFLAGS=-mod=mod", "GOPROXY=off", "GOSUMDB=off", "GOTOOLCHAIN=local")}
	pkgs, err := packages.Load(cfg, patterns...)
	if err != nil {
		return nil, err
	}
	nerr := 0
	packages.Visit(pkgs, nil, func(p *packages.Package) {
		for _, e := range p.Errors {
			if nerr < 10 {
				fmt.Fprintln(os.Stderr, "load error:", e)
			}
			nerr++
		}
	})
	if nerr > 0 {
		return nil, fmt.Errorf("%d package load errors", nerr)
	}
	prog, _ := ssautil.AllPackages(pkgs, ssa.GlobalDebug|ssa.InstantiateGenerics)
	prog.Build()
	l := &loaded{prog: prog, pkgs: map[string]*ssa.Package{}, funcs: map[string]*ssa.Function{}, ppkgs: pkgs}
	for _, p := range prog.AllPackages() {
		l.pkgs[p.Pkg.Path()] = p
	}
	return l, nil
}

type summaryRow struct {
	Name   string            `json:"name"`
	Kind   string            `json:"kind"`
	Status string            `json:"status"`
	Solver string            `json:"solver,omitempty"`
	Secs   float64           `json:"secs"`
	Pos    string            `json:"pos,omitempty"`
	Clause string            `json:"clause,omitempty"`
	N      int               `json:"instances"`
	Props  []string          `json:"props,omitempty"`
	Notes  []string          `json:"notes,omitempty"`
	Query  string            `json:"query,omitempty"`
	Model  map[string]string `json:"model,omitempty"`
	inst   []*Obligation
}

func propsHave(ps []string, p string) bool {
	for _, x := range ps {
		if x == p {
			return true
		}
	}
	return false
}

func runCheck(cfg *config) int {
	t0 := time.Now()
	initTermConsts()
	cs := newContractSet()
	// contract files in the repository (guarded, comment-only) and dependency specs
	var pkgDirs []string
	filepath.Walk(filepath.Join(cfg.repo, "pkg"), func(p string, info os.FileInfo, err error) error {
		if err == nil && info.IsDir() {
			if len(findContractFiles(p)) > 0 {
				pkgDirs = append(pkgDirs, p)
			}
		}
		return nil
	})
	for _, d := range pkgDirs {
		rel, _ := filepath.Rel(cfg.repo, d)
		pkgPath := "github.com/dtn7/dtn7-go/" + filepath.ToSlash(rel)
		for _, f := range findContractFiles(d) {
			if err := cs.loadContractFile(f, pkgPath); err != nil {
				fmt.Println("MACHINERY-ERROR", err)
				return 2
			}
		}
	}
	specs, _ := filepath.Glob(filepath.Join(cfg.verif, "contracts", "deps", "*.spec"))
	sort.Strings(specs)
	for _, f := range specs {
		if err := cs.loadContractFile(f, ""); err != nil {
			fmt.Println("MACHINERY-ERROR", err)
			return 2
		}
	}
	if err := cs.finish(); err != nil {
		fmt.Println("MACHINERY-ERROR", err)
		return 2
	}
	if cfg.tier != "thorough" {
		// clauses tagged @thorough are dropped from the quick tier (they are assumed nowhere and claimed nowhere)
		for _, c := range cs.All {
			var keep []*Clause
			for _, cl := range c.Clauses {
				if !cl.Thorough {
					keep = append(keep, cl)
				}
			}
			c.Clauses = keep
		}
	}
	// which contracts serve the property?
	var targets []*Contract
	var fre *regexp.Regexp
	if cfg.funcRe != "" {
		fre = regexp.MustCompile(cfg.funcRe)
	}
	patSet := map[string]bool{}
	for _, c := range cs.All {
		if c.Kind != "func" {
			continue
		}
		serves := cfg.prop == "" || propsHave(c.Props, cfg.prop)
		for _, cl := range c.Clauses {
			if propsHave(cl.Props, cfg.prop) {
				serves = true
			}
		}
		if !serves {
			continue
		}
		if fre != nil && !fre.MatchString(c.Func) {
			continue
		}
		targets = append(targets, c)
		patSet[c.Pkg] = true
	}
	if len(targets) == 0 {
		fmt.Printf("MACHINERY-ERROR no contracts found for property %q\n", cfg.prop)
		return 2
	}
	var pats []string
	for p := range patSet {
		pats = append(pats, p)
	}
	sort.Strings(pats)
	l, err := loadProgram(cfg.repo, pats)
	if err != nil {
		fmt.Println("MACHINERY-ERROR load:", err)
		return 2
	}
	tLoad := time.Since(t0).Seconds()
	e := &Engine{prog: l.prog, fset: l.prog.Fset, pkgs: l.pkgs, cs: cs, maxPaths: 20000, maxSteps: 200000, maxInline: 24,
		loopCache: map[*ssa.Function]map[*ssa.BasicBlock]*loopInfo{}, inlineBan: map[string]bool{}, propFilter: cfg.prop, stats: map[string]int{}, verbose: cfg.verbose}
	for fn := range ssautil.AllFunctions(l.prog) {
		if fn.Package() == nil && fn.Parent() == nil && fn.Signature.Recv() == nil {
			continue
		}
		l.funcs[e.fnKey(fn)] = fn
	}
	loadGhostDecls(cs)
	baseShapes := loadBaseline(cfg.verif)
	var results []*funcResult
	for _, c := range targets {
		fn := l.funcs[c.Pkg+"::"+c.Func]
		if fn == nil && cfg.verbose {
			base := c.Func
			if i := strings.LastIndex(base, "."); i >= 0 {
				base = base[i:]
			}
			for k := range l.funcs {
				if strings.HasPrefix(k, c.Pkg+"::") && strings.HasSuffix(k, base) {
					fmt.Println("   candidate:", k)
				}
			}
		}
		if fn == nil {
			why := "function not found in the program (renamed or removed?)"
			// renamed or moved within its package? look for a function of the shape recorded with the baseline
			if want := loadBaseline(cfg.verif).Shape[c.Pkg+"::"+c.Func]; want != "" {
				var ks []string
				for k := range l.funcs {
					if strings.HasPrefix(k, c.Pkg+"::") {
						ks = append(ks, k)
					}
				}
				sort.Strings(ks)
				for _, k := range ks {
					if f := l.funcs[k]; f.Parent() == nil && f.Syntax() != nil && shapeHash(f) == want {
						why += "; same shape found as " + k
						break
					}
				}
			}
			results = append(results, &funcResult{Func: c.Pkg + "::" + c.Func, Reach: why})
			continue
		}
		shape, locals := shapeOf(fn)
		// same shape as on the unchanged tree but other local names: evaluate the contract's old names as the new ones
		e.rename = nil
		fk := c.Pkg + "::" + c.Func
		if old := baseShapes.Locals[fk]; shape != "" && baseShapes.Shape[fk] == shape && len(old) == len(locals) {
			for i := range old {
				if old[i] != locals[i] {
					if e.rename == nil {
						e.rename = map[string]string{}
					}
					if _, dup := e.rename[old[i]]; !dup {
						e.rename[old[i]] = locals[i]
					}
				}
			}
		}
		r := e.verifyFunc(fn, c)
		e.rename = nil
		r.Shape, r.Locals = shape, locals
		results = append(results, r)
		if cfg.verbose {
			fmt.Printf("  %-60s paths=%d returns=%d %s\n", c.Func, r.Paths, r.Returns, r.Reach)
		}
	}
	tGen := time.Since(t0).Seconds() - tLoad
	qdir := filepath.Join(cfg.verif, "work", "smt", cfg.prop)
	os.RemoveAll(qdir)
	dischargeAll(e.obls, qdir, cfg.timeout, cfg.seed, cfg.workers)
	tSolve := time.Since(t0).Seconds() - tLoad - tGen
	code := report(cfg, e, results, tLoad, tGen, tSolve, time.Since(t0).Seconds())
	if !cfg.keep && code == 0 {
		os.RemoveAll(qdir)
	}
	return code
}

func loadGhostDecls(cs *ContractSet) {
	for _, f := range cs.Files {
		data, err := os.ReadFile(f)
		if err != nil {
			continue
		}
		for _, line := range strings.Split(string(data), "\n") {
			line = strings.TrimSpace(line)
			if strings.HasPrefix(line, "// govc:ghostfield ") {
				fs := strings.Fields(strings.TrimPrefix(line, "// govc:ghostfield "))
				if len(fs) >= 2 {
					ghostTypes[fs[0]] = fs[1]
				}
			}
		}
	}
}

func writeJSON(path string, v interface{}) error {
	b, err := json.MarshalIndent(v, "", " ")
	if err != nil {
		return err
	}
	os.MkdirAll(filepath.Dir(path), 0o755)
	return os.WriteFile(path, append(b, '\n'), 0o644)
}
