package main

// Verdicts, baseline, known findings, evidence.

import (
	"encoding/json"
	"fmt"
	"os"
	"path/filepath"
	"regexp"
	"sort"
	"strings"
)

type knownFinding struct {
	Property   string `json:"property"`
	Obligation string `json:"obligation"`
	What       string `json:"what"`
	Status     string `json:"status"` // open | fixed
	Commit     string `json:"commit,omitempty"`
	Witness    string `json:"witness,omitempty"`
}

type knownFile struct {
	Findings []knownFinding `json:"findings"`
	Fixed    []string       `json:"fixed"`
}

type baselineFile struct {
	Proved map[string][]string `json:"proved"` // property -> obligation names
	// function under contract -> hash of its source modulo local variable names (shape.go), recorded on the unchanged tree
	Shape map[string]string `json:"shape,omitempty"`
	// the names of its locals in first-occurrence order at that time: if only names changed since (same shape), contract
	// clauses written with the old names are evaluated with the names now at the same positions
	Locals map[string][]string `json:"locals,omitempty"`
}

func loadBaseline(verif string) *baselineFile {
	b := &baselineFile{Proved: map[string][]string{}}
	data, err := os.ReadFile(filepath.Join(verif, "baseline", "obligations.json"))
	if err == nil {
		json.Unmarshal(data, b)
	}
	if b.Proved == nil {
		b.Proved = map[string][]string{}
	}
	if b.Shape == nil {
		b.Shape = map[string]string{}
	}
	if b.Locals == nil {
		b.Locals = map[string][]string{}
	}
	return b
}

func loadKnown(verif string) *knownFile {
	k := &knownFile{}
	data, err := os.ReadFile(filepath.Join(verif, "known_findings.json"))
	if err == nil {
		json.Unmarshal(data, k)
	}
	return k
}

// Safety obligations are generated per instruction ("F/index#17"); their ordinals move when the function is edited.
// The baseline therefore records them per function and kind ("F/index": every index expression of F is in bounds):
// an unproved site fails that aggregated obligation whatever its ordinal, and a site that no longer exists is no alarm.
var siteRe = regexp.MustCompile(`^(.*/)(index|slice|nilderef|nilfunc|nilinvoke|typeassert|makelen|alloccap|divzero|shiftneg|nilmapstore|chansend|chanclose|panic|assigns|requires@[^#]*)#\d+((\.\d+)?)$`)

// staleReason: the function under contract could not be explored because its contract no longer matches the shape
// of the code - a name used in a clause (local variable, field, method, callee, type) does not exist any more, or the
// function itself is gone (renamed, moved). Nothing about the property is decided for such a function: this is not a
// counterexample and not an obligation the solver refused, so it is reported as STALE-CONTRACT (undecided), never as
// a violation.
func staleReason(why string) bool {
	if strings.Contains(why, "same shape found as ") {
		return true // the function was renamed / moved: a function of identical shape exists under another name
	}
	if !strings.Contains(why, "contract error: ") {
		return false
	}
	for _, m := range []string{"unknown identifier", "unknown function ", "no method "} {
		if strings.Contains(why, m) {
			return true
		}
	}
	return false
}

func baseKey(name string) string {
	if m := siteRe.FindStringSubmatch(name); m != nil {
		return m[1] + m[2] + m[3]
	}
	return name
}

func isSiteKey(key string) bool {
	return siteRe.MatchString(key+"#0") || siteRe.MatchString(regexp.MustCompile(`(\.\d+)$`).ReplaceAllString(key, "#0$1"))
}

func aggregate(obls []*Obligation) []*summaryRow {
	by := map[string]*summaryRow{}
	var order []string
	for _, o := range obls {
		r, ok := by[o.Name]
		if !ok {
			r = &summaryRow{Name: o.Name, Kind: o.Kind, Pos: o.Pos, Clause: o.Clause, Props: o.Props}
			by[o.Name] = r
			order = append(order, o.Name)
		}
		r.N++
		r.inst = append(r.inst, o)
		r.Secs += o.Time
	}
	rank := map[string]int{"trivial": 0, "unsat": 1, "unknown": 3, "timeout": 3, "error": 3, "sat": 4, "": 3}
	var rows []*summaryRow
	for _, n := range order {
		r := by[n]
		switch r.Kind {
		case "cover":
			// at least one instance satisfiable
			r.Status = "unknown"
			allUnsat := true
			for _, o := range r.inst {
				if o.Status == "sat" {
					r.Status = "covered"
					r.Solver = o.Solver
				}
				if o.Status != "unsat" && o.Status != "trivial" {
					allUnsat = false
				}
			}
			if r.Status != "covered" && allUnsat {
				r.Status = "vacuous"
			}
		case "canary":
			// must NOT be provable on any... (a canary proved on all instances means a vacuity hole)
			r.Status = "refuted"
			allProved := true
			for _, o := range r.inst {
				if o.Status != "unsat" && o.Status != "trivial" {
					allProved = false
				}
			}
			if allProved {
				r.Status = "canary-proved"
			}
		default:
			worst := "trivial"
			for _, o := range r.inst {
				if rank[o.Status] > rank[worst] {
					worst = o.Status
					r.Query = o.Query
					r.Model = o.Model
					r.Notes = o.Notes
				}
				if o.Status == "unsat" && r.Solver == "" {
					r.Solver = o.Solver
				}
			}
			r.Status = worst
		}
		rows = append(rows, r)
	}
	return rows
}

func report(cfg *config, e *Engine, results []*funcResult, tLoad, tGen, tSolve, wall float64) int {
	rows := aggregate(e.obls)
	base := loadBaseline(cfg.verif)
	known := loadKnown(cfg.verif)
	inBase := map[string]bool{}
	for _, n := range base.Proved[cfg.prop] {
		inBase[n] = true
	}
	knownBy := map[string]knownFinding{}
	for _, k := range known.Findings {
		if k.Property == cfg.prop && k.Status == "open" {
			knownBy[k.Obligation] = k
		}
	}
	nObl, nDis := 0, 0
	byBackend := map[string]int{}
	solverS := 0.0
	var violations []string
	var undecided []string
	var knownHits []string
	machinery := []string{}
	var proved []string
	var extraProved []string
	seen := map[string]bool{}
	replayDir := filepath.Join(cfg.verif, "replay", cfg.prop)
	os.MkdirAll(replayDir, 0o755)
	outOfReach := map[string]string{}
	var funcs []string
	for _, r := range results {
		funcs = append(funcs, r.Func)
		if r.Reach != "" {
			outOfReach[r.Func] = r.Reach
		}
	}
	// A contract that cannot be evaluated is "stale" (undecided, no alarm) only if the function's source is unchanged
	// modulo the names of its locals (same shape hash as recorded with the baseline): then the only thing that can have
	// happened is a renaming. If the shape changed as well, the function fell out of reach through a real change.
	shapes := map[string]string{}
	localsNow := map[string][]string{}
	for _, r := range results {
		shapes[r.Func] = r.Shape
		localsNow[r.Func] = r.Locals
		if why, bad := outOfReach[r.Func]; bad && staleReason(why) && !strings.Contains(why, "same shape found as ") {
			if base.Shape[r.Func] == "" || base.Shape[r.Func] != r.Shape {
				outOfReach[r.Func] = "code changed shape and " + strings.Replace(why, "contract error: ", "contract no longer evaluates: ", 1)
			}
		}
	}
	exit := 0
	for _, r := range rows {
		solverS += r.Secs
		seen[r.Name] = true
		seen[baseKey(r.Name)] = true
		switch r.Kind {
		case "cover":
			if r.Status == "vacuous" {
				machinery = append(machinery, "vacuity: "+r.Name+" is unsatisfiable (contradictory precondition or unreachable return)")
			}
			continue
		case "canary":
			if r.Status == "canary-proved" {
				machinery = append(machinery, "canary proved: "+r.Name)
			}
			continue
		}
		ok := r.Status == "unsat" || r.Status == "trivial"
		if len(inBase) > 0 && !inBase[baseKey(r.Name)] && !cfg.updateBaseline {
			// not part of the claimed (baseline) set: reported, never counted
			if ok {
				extraProved = append(extraProved, r.Name)
			} else if _, isK := knownBy[r.Name]; !isK && r.Status != "sat" {
				undecided = append(undecided, r.Name+" ("+r.Status+", not in baseline)")
				continue
			}
			if ok {
				continue
			}
		} else {
			nObl++
		}
		fnReach := ""
		for f, why := range outOfReach {
			if strings.HasSuffix(f, "::"+strings.SplitN(r.Name, "/", 2)[0]) {
				fnReach = why
			}
		}
		if fnReach != "" && staleReason(fnReach) {
			undecided = append(undecided, r.Name+" (stale contract: "+fnReach+")")
			continue
		}
		if ok && fnReach == "" {
			nDis++
			if r.Status == "trivial" {
				byBackend["simplifier"]++
			} else {
				byBackend[r.Solver]++
			}
			proved = append(proved, r.Name)
			continue
		}
		if ok && fnReach != "" {
			// proved instances of a function that was not explored completely do not count
			undecided = append(undecided, r.Name+" (function out of reach: "+fnReach+")")
			if inBase[baseKey(r.Name)] {
				if kf, isK := knownBy[r.Name]; isK {
					knownHits = append(knownHits, fmt.Sprintf("KNOWN-FINDING: property=%s %s [%s]", cfg.prop, kf.What, r.Name))
					continue
				}
				rp := writeReplay(replayDir, cfg, r, "function fell out of the verifier's reach: "+fnReach)
				violations = append(violations, fmt.Sprintf("VIOLATION property=%s replay=%s obligation=%s no-failing-input-found", cfg.prop, rp, r.Name))
			}
			continue
		}
		if kf, isK := knownBy[r.Name]; isK {
			knownHits = append(knownHits, fmt.Sprintf("KNOWN-FINDING: property=%s %s [%s]", cfg.prop, kf.What, r.Name))
			continue
		}
		// failed / undecided obligation
		replayed := false
		var rp string
		if r.Status == "sat" {
			rp, replayed = tryReplay(replayDir, cfg, e, r)
		}
		if replayed {
			violations = append(violations, fmt.Sprintf("VIOLATION property=%s replay=%s obligation=%s", cfg.prop, rp, r.Name))
			continue
		}
		if inBase[baseKey(r.Name)] {
			rp = writeReplay(replayDir, cfg, r, "obligation proved on the unchanged tree is no longer discharged ("+r.Status+")")
			violations = append(violations, fmt.Sprintf("VIOLATION property=%s replay=%s obligation=%s no-failing-input-found", cfg.prop, rp, r.Name))
			continue
		}
		undecided = append(undecided, r.Name+" ("+r.Status+")")
	}
	// baseline obligations that disappeared
	var missing []string
	for n := range inBase {
		if !seen[n] && cfg.funcRe == "" && !isSiteKey(n) {
			missing = append(missing, n)
		}
	}
	sort.Strings(missing)
	for _, n := range missing {
		if kf, isK := knownBy[n]; isK {
			knownHits = append(knownHits, fmt.Sprintf("KNOWN-FINDING: property=%s %s [%s]", cfg.prop, kf.What, n))
			continue
		}
		r := &summaryRow{Name: n, Kind: "missing", Status: "missing"}
		why := "obligation from the baseline was not generated (function removed, renamed, or out of reach)"
		stale := false
		for f, w := range outOfReach {
			if strings.HasSuffix(f, "::"+strings.SplitN(n, "/", 2)[0]) {
				why += ": " + w
				if staleReason(w) {
					stale = true
				}
			}
		}
		if stale {
			undecided = append(undecided, n+" (stale contract)")
			continue
		}
		rp := writeReplay(replayDir, cfg, r, why)
		violations = append(violations, fmt.Sprintf("VIOLATION property=%s replay=%s obligation=%s no-failing-input-found", cfg.prop, rp, n))
	}
	// stale known findings: listed but the obligation now proves -> just a note
	for n, kf := range knownBy {
		for _, p := range proved {
			if p == n {
				fmt.Printf("NOTE: known finding no longer reproduces (obligation proved): %s [%s]\n", kf.What, n)
			}
		}
	}
	sort.Strings(knownHits)
	for _, k := range knownHits {
		fmt.Println(k)
	}
	for f, w := range outOfReach {
		if staleReason(w) {
			fmt.Printf("STALE-CONTRACT property=%s function=%s undecided: %s\n", cfg.prop, f, w)
		}
	}
	if len(machinery) > 0 {
		for _, m := range machinery {
			fmt.Println("MACHINERY-ERROR", m)
		}
		exit = 2
	}
	if len(violations) > 0 {
		sort.Strings(violations)
		for _, v := range violations {
			fmt.Println(v)
		}
		exit = 1
	}
	// evidence
	var samples []interface{}
	for _, r := range rows {
		if len(samples) >= 6 {
			break
		}
		if r.Status == "unsat" {
			samples = append(samples, map[string]interface{}{"obligation": r.Name, "kind": r.Kind, "at": r.Pos, "clause": r.Clause, "solver": r.Solver, "secs": round3(r.Secs), "instances": r.N})
		}
	}
	if len(samples) == 0 {
		for _, r := range rows {
			if len(samples) >= 3 {
				break
			}
			samples = append(samples, map[string]interface{}{"obligation": r.Name, "kind": r.Kind, "status": r.Status})
		}
	}
	var trusted []string
	for m := range usedModels {
		trusted = append(trusted, "model: "+m)
	}
	for _, c := range e.cs.All {
		if c.Kind == "trusted" && e.stats["contract:"+strings.TrimPrefix(c.Func, "")] > 0 {
			trusted = append(trusted, "trusted contract: "+c.Pkg+"::"+c.Func)
		}
	}
	for k := range e.stats {
		if strings.HasPrefix(k, "opaque:") {
			trusted = append(trusted, "opaque call (results and heap havoc'd; termination and panic-freedom assumed): "+strings.TrimPrefix(k, "opaque:"))
		}
	}
	sort.Strings(trusted)
	trusted = append(trusted, "SMT solvers z3 4.8.12 / z3 5.1.0 / cvc5 1.0 (raced)", "go/ssa (x/tools v0.29.0) faithful to the compiler", "govc SSA->SMT translation; sequential semantics for locks/atomics; goroutines not executed")
	var oor []string
	for f, w := range outOfReach {
		oor = append(oor, f+": "+w)
	}
	sort.Strings(oor)
	sort.Strings(undecided)
	level := "proof"
	cov := map[string]interface{}{
		"obligations": nObl, "discharged": nDis,
		"checker_cmd":              fmt.Sprintf("/verif/bin/govc check -prop %s -tier %s", cfg.prop, cfg.tier),
		"trusted_base":             trusted,
		"samples":                  samples,
		"functions_under_contract": funcs,
		"by_backend":               byBackend,
		"solver_s":                 round3(solverS),
		"load_s":                   round3(tLoad), "vcgen_s": round3(tGen), "solve_wall_s": round3(tSolve),
		"out_of_reach":            oor,
		"undecided":               undecided,
		"proved_outside_baseline": extraProved,
		"known_findings":          knownHits,
		"instances":               len(e.obls),
		"evaluations":             len(e.obls),
		"distinct_nontrivial":     nObl - byBackend["simplifier"],
		"rule":                    "one evaluation = one obligation instance (path x site) sent to the simplifier/solvers; distinct_nontrivial = distinct obligation names not discharged by the syntactic simplifier alone",
		"explanation":             "contract-based deductive verification: VCs generated from go/ssa of the current tree, discharged by SMT",
	}
	if nObl != nDis {
		// the schema wants discharged == obligations for a proof-level claim; report honestly and downgrade the level
		level = "other"
	}
	ev := map[string]interface{}{
		"property_id": cfg.prop, "tier": cfg.tier, "seed": cfg.seed, "level": level, "coverage": cov,
		"assumptions": assumptionsFor(cfg.prop, e), "wall_s": round3(wall), "violations": len(violations),
	}
	if err := writeJSON(filepath.Join(cfg.verif, "evidence", cfg.prop+".json"), ev); err != nil {
		fmt.Println("MACHINERY-ERROR evidence:", err)
		return 2
	}
	if cfg.updateBaseline {
		// aggregated site keys enter the baseline only if every site of that kind in the function was proved
		failedKey := map[string]bool{}
		slowName := map[string]bool{}
		for _, r := range rows {
			if r.Kind != "cover" && r.Kind != "canary" && r.Status != "unsat" && r.Status != "trivial" {
				failedKey[baseKey(r.Name)] = true
			}
			// admission rule: an obligation enters the baseline (= is claimed, and alarms when it stops proving) only if
			// every instance discharged in well under the quick timeout, so that solver jitter on another machine cannot
			// raise an alarm on the unchanged tree
			for _, o := range r.inst {
				if o.Time > float64(cfg.timeout)/3 {
					slowName[r.Name] = true
					failedKey[baseKey(r.Name)] = true
				}
			}
		}
		for n := range slowName {
			fmt.Printf("NOTE: not admitted to the baseline (slow, > %.1fs): %s\n", float64(cfg.timeout)/3, n)
		}
		keys := map[string]bool{}
		for _, n := range proved {
			if k := baseKey(n); !failedKey[k] && !slowName[n] {
				keys[k] = true
			}
		}
		proved = proved[:0]
		for k := range keys {
			proved = append(proved, k)
		}
		sort.Strings(proved)
		base.Proved[cfg.prop] = proved
		for f, h := range shapes {
			if h != "" {
				base.Shape[f] = h
				base.Locals[f] = localsNow[f]
			}
		}
		writeJSON(filepath.Join(cfg.verif, "baseline", "obligations.json"), base)
	}
	fmt.Printf("property=%s obligations=%d discharged=%d undecided=%d violations=%d known=%d out_of_reach=%d wall=%.1fs (load %.1f gen %.1f solve %.1f)\n",
		cfg.prop, nObl, nDis, len(undecided), len(violations), len(knownHits), len(oor), wall, tLoad, tGen, tSolve)
	if cfg.verbose {
		var ks []string
		for k, v := range e.stats {
			ks = append(ks, fmt.Sprintf("%s=%d", k, v))
		}
		sort.Strings(ks)
		fmt.Println("  calls:", strings.Join(ks, " "))
		sl := append([]*summaryRow(nil), rows...)
		sort.Slice(sl, func(i, j int) bool { return sl[i].Secs > sl[j].Secs })
		for i := 0; i < 5 && i < len(sl); i++ {
			fmt.Printf("  slow: %.1fs %s [%s %s n=%d]\n", sl[i].Secs, sl[i].Name, sl[i].Status, sl[i].Solver, sl[i].N)
		}
		for _, u := range undecided {
			fmt.Println("  undecided:", u)
		}
		for _, r := range rows {
			if r.Status == "sat" || r.Status == "unknown" || r.Status == "timeout" {
				for _, o := range r.inst {
					if o.Status == r.Status {
						fmt.Printf("    %s [%s] trace: %s\n      query: %s\n", r.Name, o.Status, o.Trace, o.Query)
						break
					}
				}
			}
		}
		for _, o := range oor {
			fmt.Println("  out-of-reach:", o)
		}
	}
	return exit
}

func round3(f float64) float64 { return float64(int(f*1000+0.5)) / 1000 }

func assumptionsFor(prop string, e *Engine) []string {
	a := []string{
		"integers are exact-width bit-vectors; float64 is modelled as mathematical reals",
		"goroutines, locks and atomics: sequential semantics, no interleavings",
		"pointer receivers are non-nil; distinct pointer parameters may alias only through the shared symbolic heap",
		"strings are an uninterpreted sort (length, byte-at); fmt/regexp results are opaque",
	}
	// modelling conventions that only some contracts rely on
	uses := func(needle string) bool {
		for _, c := range e.cs.All {
			if c.Kind != "func" || !(propsHave(c.Props, prop) || prop == "") {
				continue
			}
			for _, cl := range c.Clauses {
				if strings.Contains(cl.Text, needle) {
					return true
				}
			}
		}
		return false
	}
	if uses("broken(") {
		a = append(a, "broken(w) is defined as: every direct Write on w fails; the stream model assumes !broken(w) on each successful direct write (writes through a buffering wrapper carry no such assumption)")
	}
	if uses("freshref(") || prop == "C09" || prop == "C06" || prop == "C02" {
		a = append(a, "freshref(x) in an assumed summary: the object is distinct from every object the caller holds (Bundle.AddExtensionBlock: the block slice is the old backing array or a fresh one; append into spare capacity shared with another slice is not modelled)")
	}
	if prop == "C09" {
		a = append(a, "math.Min over two converted integers is exact given the proved side obligation |x| <= 2^53 (floatexact); bundles with more than 65536 canonical blocks are outside the claim (precondition)")
	}
	seen := map[string]bool{}
	for _, o := range e.obls {
		for _, n := range o.Notes {
			if !seen[n] && !strings.HasPrefix(n, "solver output") {
				seen[n] = true
				a = append(a, n)
			}
		}
	}
	return a
}

func writeReplay(dir string, cfg *config, r *summaryRow, why string) string {
	name := strings.NewReplacer("/", "_", "*", "", "(", "", ")", "", "#", "-", ":", "_", "$", "_", "@", "_").Replace(r.Name)
	p := filepath.Join(dir, name+".json")
	out := ""
	for _, n := range r.Notes {
		out += n + "\n"
	}
	writeJSON(p, map[string]interface{}{
		"property": cfg.prop, "obligation": r.Name, "kind": r.Kind, "status": r.Status, "at": r.Pos, "clause": r.Clause,
		"reason": why, "solver_output": out, "model": r.Model, "query_file": r.Query, "failing_input": nil,
	})
	return p
}
