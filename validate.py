#!/usr/bin/env python3
import json, sys, glob
import jsonschema
m=json.load(open('/verif/MANIFEST.json')); s=json.load(open('/root/.vp/MANIFEST.schema.json'))
jsonschema.validate(m,s); print("manifest ok")
es=json.load(open('/root/.vp/EVIDENCE.schema.json'))
for f in sorted(glob.glob('/verif/evidence/*.json')):
    e=json.load(open(f)); jsonschema.validate(e,es); print("evidence ok", f, e['level'], e['coverage'].get('obligations'), e['coverage'].get('discharged'))
