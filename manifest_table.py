# Table of properties for mkmanifest.py. claim(id, level text, level note, DESIGN ref) / na(id, reason)
UNBUILT = "contracts for this property are not yet discharged by the verifier (work in progress, see DESIGN.md); not claimed until its check runs clean"

claim("C06",
      "Postconditions on the hop-count and bundle-age transformation functions are proved for all 8-bit/64-bit values "
      "(hop count +1 without wrap, exceed test, age growth in ms); every obligation is an SMT-discharged VC generated from the current source.",
      "Covers the per-function clauses of C06 only; wire-level byte identity is C01; goroutine fan-out in Core.forward is not modelled. "
      "Trusted: solvers, go/ssa, SSA->SMT translation, time.Since as an uninterpreted non-negative duration.",
      "DESIGN.md §6 C06")

claim("C01",
      "M/U/A contracts over ghost token streams: every leaf codec (hop count, bundle age, creation timestamp, ipn SSP), the primary block "
      "and the canonical block are proved to write exactly the BPv7 element sequence (Marshal), to decode an encoding of v to v consuming "
      "exactly its tokens (Unmarshal, behaviour U), and to accept only values that re-serialise (CRC type <= 2, array length consistent with flags).",
      "Token-level stream model (CBOR heads in shortest form are atomic tokens; non-shortest-form heads are outside the model). Assumed inverse "
      "pairs: EndpointID codec (reflection dispatch), ExtensionBlockManager.Write/ReadBlock (registry), cboring.ReadMajors/WriteMajors token "
      "semantics. Bundle-level loop (all canonical blocks) and dtn URI text are not decided yet.",
      "DESIGN.md §6 C01")

claim("C03",
      "For PrimaryBlock and CanonicalBlock: Unmarshal succeeds with a non-zero CRC type only if a CRC field was read whose big-endian value equals "
      "the CRC (uninterpreted crc16x25 / crc32c) over exactly the tokens received for this block with the CRC field zeroed; Marshal writes that value; "
      "declared CRC <=> CRC field present. All discharged by SMT from the current source.",
      "CRC polynomial algebra (burst detection) is mathematics taken as given; crc16.Checksum / crc32.Checksum are uninterpreted functions of the "
      "token sequence; the replayed canonical array head equals the received one only for shortest-form heads (token model).",
      "DESIGN.md §6 C03")

claim("C16",
      "Element state machine of the CLA manager: activate/deactivate/isActive are proved against the invariant (ttl<0) <=> adapter running, "
      "the retry-budget rules (non-permanent: one unit per retryable failure, forgotten at 0; permanent: never forgotten, ttl stays >= 0), "
      "exactly one stop signal per deactivation and no close of a closed channel, for every 32-bit budget.",
      "Adapter interface contracts (Start/Close/IsPermanent with ghost $running) are assumed; the goroutine handshake close(stopSyn) -> handler -> Close() "
      "is not modelled (handler stop arm is a separate obligation); Manager-level registry steps (sync.Map) not yet under contract.",
      "DESIGN.md §6 C16")

for pid in ["C02","C04","C05","C07","C09","C10","C11","C12","C13","C14","C15","C17","C18","C19","C20"]:
    na(pid, UNBUILT)
na("C08", "Durability across restarts/crash points and concurrent pushes are history properties of badgerhold/gob/the file system; "
          "the in-repo code is a thin reflection-driven wrapper; no function contract within reach can express or decide them (DESIGN.md §7).")
