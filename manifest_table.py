# Table of properties for mkmanifest.py. claim(id, level text, level note, DESIGN ref) / na(id, reason)
UNBUILT = "contracts for this property are not yet discharged by the verifier (work in progress, see DESIGN.md); not claimed until its check runs clean"

claim("C06",
      "Postconditions on the hop-count and bundle-age transformation functions are proved for all 8-bit/64-bit values "
      "(hop count +1 without wrap, exceed test, age growth in ms); every obligation is an SMT-discharged VC generated from the current source.",
      "Covers the per-function clauses of C06 only; wire-level byte identity is C01; goroutine fan-out in Core.forward is not modelled. "
      "Trusted: solvers, go/ssa, SSA->SMT translation, time.Since as an uninterpreted non-negative duration.",
      "DESIGN.md §6 C06")

for pid in ["C01","C02","C03","C04","C05","C07","C09","C10","C11","C12","C13","C14","C15","C16","C17","C18","C19","C20"]:
    na(pid, UNBUILT)
na("C08", "Durability across restarts/crash points and concurrent pushes are history properties of badgerhold/gob/the file system; "
          "the in-repo code is a thin reflection-driven wrapper; no function contract within reach can express or decide them (DESIGN.md §7).")
