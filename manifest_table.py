# Table of properties for mkmanifest.py. claim(id, level text, level note, DESIGN ref) / na(id, reason)
UNBUILT = "contracts for this property are not yet discharged by the verifier (work in progress, see DESIGN.md); not claimed until its check runs clean"

claim("C06",
      "Postconditions on the hop-count and bundle-age transformation functions are proved for all 8-bit/64-bit values "
      "(hop count +1 without wrap, exceed test, age block grows by the residence time in milliseconds and the reception time is never reset); "
      "Bundle.AddExtensionBlock is proved from its body to number the new block differently from every existing block and to keep the existing blocks; every obligation is an SMT-discharged VC generated from the current source.",
      "Covers the per-function clauses of C06 only; wire-level byte identity is C01; Core.forward (hand-over, previous-node block, refusal for hop limit / lifetime) is not under contract. "
      "Trusted: solvers, go/ssa, SSA->SMT translation, time.Since as an uninterpreted non-negative duration.",
      "DESIGN.md §6 C06")

claim("C01",
      "M/U/A contracts over ghost token streams: every leaf codec (hop count, bundle age, creation timestamp, ipn SSP), the primary block "
      "and the canonical block are proved to write exactly the BPv7 element sequence (Marshal), to decode an encoding of v to v consuming "
      "exactly its tokens (Unmarshal, behaviour U), and to accept only values that re-serialise (CRC type <= 2, array length consistent with flags).",
      "Token-level stream model (CBOR heads in shortest form are atomic tokens; non-shortest-form heads are outside the model). Assumed inverse "
      "pairs: EndpointID codec (reflection dispatch), ExtensionBlockManager.Write/ReadBlock (registry), cboring.ReadMajors/WriteMajors token "
      "semantics. Bundle-level loop (all canonical blocks) and dtn URI text are not decided yet.",
      "DESIGN.md §6 C01")

claim("C03",
      "For PrimaryBlock and CanonicalBlock: Unmarshal succeeds with a non-zero CRC type only if a CRC field was read whose big-endian value equals "
      "the CRC (uninterpreted crc16x25 / crc32c) over exactly the tokens received for this block with the CRC field zeroed; Marshal writes that value; "
      "declared CRC <=> CRC field present. All discharged by SMT from the current source.",
      "CRC polynomial algebra (burst detection) is mathematics taken as given; crc16.Checksum / crc32.Checksum are uninterpreted functions of the "
      "token sequence; the replayed canonical array head equals the received one only for shortest-form heads (token model).",
      "DESIGN.md §6 C03")

claim("C16",
      "Element state machine of the CLA manager: activate/deactivate/isActive are proved against the invariant (ttl<0) <=> adapter running, "
      "the retry-budget rules (non-permanent: one unit per retryable failure, forgotten at 0; permanent: never forgotten, ttl stays >= 0), "
      "exactly one stop signal per deactivation and no close of a closed channel, for every 32-bit budget.",
      "Adapter interface contracts (Start/Close/IsPermanent with ghost $running) are assumed; the goroutine handshake close(stopSyn) -> handler -> Close() "
      "is not modelled (handler stop arm is a separate obligation); Manager-level registry steps (sync.Map) not yet under contract.",
      "DESIGN.md §6 C16")

claim("C02",
      "Validator soundness: BundleControlFlags/PrimaryBlock/CanonicalBlock/HopCountBlock/IpnEndpoint/EndpointID.CheckValid and Bundle.CheckValid are proved to "
      "return nil only for values satisfying the BPv7 structural rules written from the statement (version 7, flag contradictions, payload block numbered 1 and last, "
      "valid endpoint IDs, no report-requesting block in administrative/anonymous bundles, zero creation time only with an age block, hop count <= limit), with loop "
      "invariants over an unbounded number of blocks. Pairwise uniqueness of block numbers/types is attempted in the thorough tier only.",
      "Validity of dtn-scheme endpoints (regexp) and of block-specific data is an uninterpreted predicate per dynamic value (extValid/etValid); in-memory bundles are "
      "assumed to carry non-nil block values whose Go type matches a registered type code; 'produced bundles are accepted by the parser' rests on C01; builder call sequences not yet under contract.",
      "DESIGN.md §6 C02")

claim("C11",
      "OutgoingTransfer.NextSegment over a byte-level ghost stream: segments <= mtu, bytes are exactly the next bytes of the stream, START iff first, END exactly when the data "
      "is exhausted (also when the length is a multiple of the segment size), io.EOF only after END; IncomingTransfer.NextSegment appends exactly the segment data, acknowledges "
      "the running byte total, refuses foreign ids and segments after END; XFER_SEGMENT/XFER_ACK/XFER_REFUSE codecs round-trip (C17 contracts).",
      "TransferManager.Send returns nil only when the length reported by its segmenting goroutine equals the last acknowledged length (channel invariants: only genuine errors travel on the error channel); "
      "concurrent transfers, TransferManager.handle and the transport are not decided; io.Pipe/io.ReadFull semantics are a trusted model; the segmenter preconditions at the goroutine's call site are not established (undecided, not claimed).",
      "DESIGN.md §6 C11")

claim("C14",
      "IdKeeper.update assigns 0 to an untracked (source, creation time) tuple and predecessor+1 to a tracked one, writes exactly that number into the bundle and remembers it; "
      "IdKeeper.clean (map iteration with deletion, inductive invariant over an arbitrary key) never forgets a zero-creation-time entry and never changes a counter.",
      "Sequential semantics of the keeper's mutex; Core.SendBundle/transmit (store key vs assigned id) not yet under contract; string-keyed map indices use an injective uninterpreted encoding.",
      "DESIGN.md §6 C14")

claim("C17",
      "M/U contracts for seven TCPCLv4 messages (big-endian fixed-width layouts from the TCPCLv4 draft, header/reason-code rejection over all 256 byte values, exact consumption), "
      "creation timestamp, ipn SSP, BBC fragment header bit layout and accessor round trip.",
      "Contact header magic (package-level initialiser), discovery announcements, WebSocket-agent messages, status reports/bundle ids and endpoint URI text <-> structure are not yet under contract; "
      "encoding/binary and io.ReadFull/CopyN are trusted token-level models.",
      "DESIGN.md §6 C17")

claim("C18",
      "Vanilla spray and wait: SenderForBundle spends exactly one copy per selected sender, never the last copy, appends as many peers to the sent list as it selects and selects nothing without metadata or "
      "with fewer than two copies (loop invariants over an unbounded sender list); ReportFailure gives a copy back exactly for a peer in the sent list and removes that entry, and changes nothing for any other peer. "
      "Binary spray: SenderForBundle selects at most one peer not in the sent list, keeps rem - rem/2, writes rem/2 into the bundle's spray block (existing or newly added) and leaves the count alone when nobody is "
      "selected; ReportFailure returns the announced copies to the kept count; NotifyNewBundle initialises the budget (L for own bundles, 1 resp. the announced count for relayed ones) and remembers the previous node.",
      "Sequential histories only (concurrent failure reports not decided). Assumed: cla.Manager.Sender, BundleDescriptor.MustBundle (loaded bundle is well-typed, one block per type), Bundle.AddExtensionBlock "
      "(adds exactly the given block). The global bound 'at most L-1 transmissions' follows from these per-operation contracts by induction over sequential histories; the induction itself is not mechanised.",
      "DESIGN.md §6 C18")

claim("C12",
      "BBC: fragment header bit layout and accessors; NewIncomingTransmission/ReadFragment accept exactly the successor sequence number (mod 16) of an unfinished transmission with matching id and no start bit and then "
      "append exactly the fragment's bytes, any other fragment is an error that changes nothing; WriteFragment cuts at most MTU-2 bytes, start mark on the first and end mark exactly on the last fragment, consecutive "
      "sequence numbers, payload partition (quantified over all bytes); the connector forgets a transmission and returns the error when a fragment does not continue it; "
      "Connector.handleIncomingFragment: an error means exactly one failure fragment is broadcast and no bundle is reported, no error means none, a received failure fragment only notifies the sending side, at most one report per fragment. "
      "MTCP: MTCPClient.Send returns an error exactly when it reports the peer as gone (once), and returns an error whenever the connection is broken (every direct write fails); "
      "MTCPServer.handleSender reports a bundle only for a non-zero-length frame that parsed, never for keep-alive/probe frames.",
      "The MTCP byte-level round trip (sequence of bundles in = same bundles out) needs the bundle-level decode-of-encode theorem and is not decided; Connector.Send loop not under contract; bufio/bytes/net internals are frame "
      "assumptions (contracts/deps/stdlib_*.spec); xz compression, modem transport and concurrency (keep-alive vs. Send interleavings) are outside this family.",
      "DESIGN.md §6 C12")

claim("C13",
      "filterCLAs returns only senders whose peer is not in the bundle's sent list, each once, and the new list is the old one followed by the selected peers (quantified loop invariants); epidemic ReportFailure removes "
      "exactly the first entry equal to the failed peer and nothing when the peer is absent; spray variants: selected peers are not in the old sent list, NotifyNewBundle records the previous node, ReportFailure removes the failed peer.",
      "Store persistence (badgerhold) and QueryId/Update are assumed contracts; PRoPHET/DTLSR NotifyNewBundle and Core.receive/forward call sites not yet under contract; racing failure reports not decided.",
      "DESIGN.md §6 C13")

claim("C15",
      "NewStatusReport names the subject's exact bundle id (source, timestamp, fragment flag/offset/length), asserts exactly the reported status, carries a time only if requested; Core.SendStatusReport emits nothing for "
      "administrative records or when the report-to endpoint is local, otherwise exactly one bundle addressed to the report-to endpoint with control flags == administrative-record only.",
      "All five call sites of SendStatusReport (receive x2, forward, localDelivery, bundleDeletion) carry 'the event happened and the report was requested' as call-site obligations; AgentManager.Deliver succeeds only with a registered agent. "
      "Core.SendBundle (ghost count of emitted bundles), HasEndpoint and the builder's clock/lifetime steps are assumed contracts; safety obligations of Core.forward are assumed.",
      "DESIGN.md §6 C15")

claim("C19",
      "In real arithmetic: encounter keeps every predictability in [0,1] and never lowers one, ageing never raises one, the transitive update (loop over the peer's map in arbitrary order) keeps all values in [0,1] "
      "and never lowers one; ageCron likewise - invariants quantified over all endpoint IDs, discharged by ground instantiation + QF_NRA.",
      "float64 treated as mathematical reals (IEEE rounding/NaN not modelled); the forwarding gate (SenderForBundle) and concurrent map access are not decided yet.",
      "DESIGN.md §6 C19")

claim("C04",
      "Zero-annotation safety obligations at every instruction that can panic (index, slice bounds, nil dereference / nil interface call, type assertion, make with a negative or huge length, division, "
      "nil-map store, channel close/send) plus an allocation-cap obligation (1 MiB) at every make/append growth of non-constant size, generated for the decoders under contract and discharged for all input "
      "streams: BPv7 primary/canonical/hop-count/age/timestamp/ipn/dtn/previous-node/signature/spray/PRoPHET/DTLSR/status-report/bundle-id decoders, Bundle.UnmarshalCbor, the seven TCPCLv4 message decoders, contact header and ReadMessage, "
      "TCPCL segmenter/reassembler, BBC ParseFragment/ReadFragment, discovery announcements and the five WebSocket-agent message decoders.",
      "Inputs are symbolic token streams (CBOR heads in shortest form; other encodings outside the model). Not covered: reflection-based dispatch (NewMessage, ReadAdministrativeRecord, agent unmarshalCbor - registry contents assumed), "
      "ExtensionBlockManager.ReadBlock and EndpointID.UnmarshalCbor (assumed models), MTCP handleSender (net/bufio), xz, json, websocket, regexp internals; termination is proved only where a loop carries a variant, "
      "hangs are otherwise not decided; cboring.ReadMajors/ReadRawBytes are a trusted model (ReadRawBytes caps allocation itself).",
      "DESIGN.md §6 C04")

claim("C07",
      "Endpoint matching: bagContainsEndpoint returns false only if no endpoint is common to both collections (so an agent registered for the destination is never skipped; the converse direction in the thorough tier), a bundle message is "
      "addressed to exactly its destination; REST agent: the iteration callbacks of receiveBundleMessage and Endpoints never stop the iteration and select a client exactly when its endpoint equals the destination.",
      "Partial: MuxAgent.handle fan-out (channel range), the mailbox update loop, AgentManager.Deliver and Core.localDelivery/dispatching call sites are not yet under contract; sync.Map is a sequential ghost-map model, Range = callback "
      "effects on captured variables; concurrent register/unregister/fetch (non-atomic mailbox updates) is outside this family.",
      "DESIGN.md §6 C07")

claim("C10",
      "mergeFragmentPayload is proved never to panic for any slice of bundles (every slice/index expression in bounds, also for unsorted input, gaps, duplicates, overlaps and absurd offsets) and to return either an error or data; "
      "prepareReassembly succeeds only for a non-empty slice consisting of fragments whose first (lowest-offset) fragment starts at offset 0. In the thorough tier: merged data is a prefix of the original payload for every family of fragments of one payload.",
      "Partial: 'succeeds exactly when the fragments cover the payload' needs a running-maximum (recursive) specification and is not decided; sort.Slice is a permutation model (order by the less function not assumed); "
      "two safety obligations of prepareReassembly (type assertion after the permutation) are undecided and not claimed; fragment-of-fragment offsets (Bundle.Fragment) and the store's completeness test are not under contract.",
      "DESIGN.md §6 C10, §11.4")

claim("C05",
      "Per-step retention clauses: Core.receive deletes a new bundle only for an unsupported block that demands deletion, leaves known bundles untouched and hands every other new bundle to dispatching; "
      "Core.localDelivery releases the retention constraints only after the agent manager took the bundle and otherwise marks it contraindicated (kept, retried); PurgeConstraints never removes the local-endpoint constraint and adds nothing; "
      "the per-peer forwarding goroutine reports every failed transmission to the routing algorithm exactly once and names its sender; filterCLAs/epidemic selection clauses shared with C13.",
      "Core.forward: call-site clauses (released only after a successful transmission and otherwise contraindicated, routing algorithm consulted only without a direct sender, deletion only for hop limit or lifetime) with its safety obligations assumed; "
      "Partial: BundleDescriptor.Sync, checkPendingBundles, senderForDestination, expiry of clock-less bundles, restarts, crash points and racing failure reports are not decided.",
      "DESIGN.md §6 C05, §11.4")

claim("C20",
      "Link-state replacement is strictly-newer-timestamp (ShouldReplace) and DTLSR.NotifyNewBundle compares the received data with the stored record of the same sender; newNode gives an id exactly one vertex, never renumbers tracked ids and keeps "
      "the vertex list as long as the vertex counter; NotifyNewBundle calls newNode for every node named by accepted data (map-range loops with invariants; the 'every named node is tracked' invariant over the visited set in the thorough tier); "
      "SenderForBundle hands a unicast bundle only to the connected sender whose peer equals the routing table's next hop for the destination and then releases it, and selects nobody without a table entry.",
      "Partial: computeRoutingTable (edge costs, table extraction) and the third-party Dijkstra implementation are not under contract - 'next hop lies on a minimum-cost path' is not decided; peer appear/disappear/purge bookkeeping, "
      "the broadcast branch (filterCLAs precondition on the store item) and concurrency between cron jobs are not decided; range over a map is assumed to visit every key that stays in the map.",
      "DESIGN.md §6 C20, §11.4")

claim("C09",
      "Bundle.Fragment is under contract from its body: a must-not-fragment bundle is refused with an error; a successful call never returns an empty list (zero-length payload included); a single result is the bundle itself "
      "(same primary block fields, same block slice); with more than one result every fragment's primary block repeats version, CRC type, destination, source, report-to, creation timestamp and lifetime of the original, "
      "is flagged as a fragment, announces the original payload length as total length and an offset below it, and the first fragment has offset 0; fragmentPrimaryBlock's field-by-field postcondition; "
      "no slice/index/nil/type-assertion panic in Fragment, fragmentPrimaryBlock and fragmentExtensionBlocksLen; the float64 detour of the offset computation is shown exact (side obligation |x| <= 2^53).",
      "Partial. Not decided: 'each fragment serialises to at most the maximum size' (needs an encoded-size specification function over all block types), the payload slices partitioning the payload without gap or overlap "
      "(offset arithmetic is in bounds, but the per-fragment payload length is not tied to the next offset), extension-block placement (all in the first, replicated ones in every fragment), and byte-identical reassembly "
      "(ReassembleFragments is an assumed summary; its parts are under contract for C10). Precondition: at most 65536 canonical blocks (keeps the overhead sums within int range). "
      "Bundle.AddExtensionBlock is used through its assumed summary (its numbering loop is proved separately); append into spare capacity of a shared backing array is not modelled by that summary.",
      "DESIGN.md §6 C09, §11.4")
na("C08", "Durability across restarts/crash points and concurrent pushes are history properties of badgerhold/gob/the file system; "
          "the in-repo code is a thin reflection-driven wrapper; no function contract within reach can express or decide them (DESIGN.md §7).")
