#!/usr/bin/env python3
"""Parallel must-fail run: like selftest.py, but every shard works in its own scratch worktree of /repo's HEAD under
/tmp (removed afterwards) and the checks are pointed at it with VERIF_REPO, so /repo itself is never touched.
Shards are split by property, so evidence/work files of different shards never collide. The evidence files written by
the mutated runs are NOT meaningful afterwards: re-run the quick checks on /repo before committing evidence.
usage: selftest_par.py [-j N] [id-or-property ...]"""
import json, os, subprocess, sys, glob, tempfile, threading

def sh(cmd, env=None):
    return subprocess.run(cmd, shell=True, capture_output=True, text=True, env=env)

args = sys.argv[1:]
nshard = 3
if args[:1] == ["-j"]:
    nshard = int(args[1]); args = args[2:]
want = args
seeds = []
for d in sorted(glob.glob("/verif/seeded/*/")):
    if os.path.exists(d + "meta.json"):
        m = json.load(open(d + "meta.json"))
        if not want or m["id"] in want or m["property"] in want:
            seeds.append((m["id"], m["property"], d))
props = sorted({p for _, p, _ in seeds})
shards = [[] for _ in range(nshard)]
for i, p in enumerate(props):
    shards[i % nshard] += [s for s in seeds if s[1] == p]
rows, lock = [], threading.Lock()

def run(k, mine):
    if not mine:
        return
    wt = tempfile.mkdtemp(prefix=f"st{k}-", dir="/tmp"); os.rmdir(wt)
    r = sh(f"git -C /repo worktree add -q --detach {wt} HEAD")
    assert r.returncode == 0, r.stderr
    env = dict(os.environ, VERIF_REPO=wt)
    try:
        for sid, prop, d in mine:
            r = sh(f"git -C {wt} apply {d}patch.diff")
            if r.returncode != 0:
                with lock: rows.append((sid, prop, "PATCH-DOES-NOT-APPLY", ""))
                continue
            c = sh(f"cd /verif && ./check {prop} quick", env)
            sh(f"git -C {wt} checkout -- . && git -C {wt} clean -fdq")
            viol = [l for l in c.stdout.splitlines() if l.startswith("VIOLATION")]
            stale = [l for l in c.stdout.splitlines() if l.startswith("STALE-CONTRACT")]
            status = "caught" if (c.returncode == 1 and viol) else f"MISSED (exit {c.returncode})" + (" stale" if stale else "")
            with lock:
                rows.append((sid, prop, status, viol[0][:170] if viol else (stale[0][:170] if stale else "")))
                print("%-8s %-4s %-22s" % (sid, prop, status), flush=True)
    finally:
        sh(f"git -C /repo worktree remove --force {wt}")

ts = [threading.Thread(target=run, args=(k, sh_)) for k, sh_ in enumerate(shards)]
[t.start() for t in ts]; [t.join() for t in ts]
print()
for row in sorted(rows):
    print("%-8s %-4s %-22s %s" % row)
missed = [r for r in rows if not r[2].startswith("caught")]
print(f"{len(rows) - len(missed)}/{len(rows)} seeded changes caught")
