#!/usr/bin/env python3
"""Confirms a seeded change in a scratch worktree (outside /repo and /verif) and files it under /verif/seeded/<id>/.

usage: seed_verify.py <name> <property> <patch> <demo_test.go> <pkgdir relative to repo> "<needs>"

Checks, all in a throw-away worktree of /repo's HEAD:
  1. the patch applies and `go build ./...` succeeds,
  2. the existing tests of the affected package (and of pkg/bpv7, pkg/routing, pkg/storage, pkg/cla) still pass with it,
  3. the demonstration test FAILS with the patch,
  4. the demonstration test PASSES without it.
The worktree and its build output are removed afterwards.
"""
import json, os, shutil, subprocess, sys, tempfile

ENV = dict(os.environ, GOFLAGS="-mod=mod", GOPROXY="off", GOSUMDB="off", GOTOOLCHAIN="local")

def sh(cmd, cwd, timeout=1500):
    r = subprocess.run(cmd, shell=True, cwd=cwd, env=ENV, capture_output=True, text=True, timeout=timeout)
    return r.returncode, (r.stdout + r.stderr)[-3000:]

def main():
    name, prop, patch, demo, pkgdir, needs = sys.argv[1:7]
    extra_pkgs = sys.argv[7:] if len(sys.argv) > 7 else []
    wt = tempfile.mkdtemp(prefix="seedchk-", dir="/tmp")
    os.rmdir(wt)
    ran = []
    ok = True
    try:
        rc, out = sh(f"git -C /repo worktree add -q --detach {wt} HEAD", "/")
        assert rc == 0, out
        rc, out = sh(f"git apply {patch}", wt)
        ran.append(("git apply patch", rc))
        if rc != 0:
            print("patch does not apply:", out); ok = False; return
        rc, out = sh("go build ./...", wt)
        ran.append(("go build ./...", rc))
        if rc != 0:
            print("build fails:", out); ok = False; return
        pkgs = sorted(set([f"./{pkgdir}/"] + [f"./{p}/" for p in extra_pkgs]))
        rc, out = sh(f"go test -p 2 -vet=off -count=1 {' '.join(pkgs)}", wt)
        ran.append((f"existing tests with change: go test {' '.join(pkgs)}", rc))
        if rc != 0:
            print("existing tests fail with the change:", out); ok = False; return
        dst = os.path.join(wt, pkgdir, "zz_demo_test.go")
        shutil.copy(demo, dst)
        rc, out = sh(f"go test -vet=off -count=1 -run 'TestDemo' ./{pkgdir}/", wt)
        ran.append(("demo with change (must fail)", rc))
        if rc == 0:
            print("demo passes WITH the change"); ok = False; return
        with_out = out[-600:]
        rc, out = sh(f"git apply -R {patch}", wt)
        rc, out = sh(f"go test -vet=off -count=1 -run 'TestDemo' ./{pkgdir}/", wt)
        ran.append(("demo without change (must pass)", rc))
        if rc != 0:
            print("demo fails WITHOUT the change:", out); ok = False; return
        d = f"/verif/seeded/{name}"
        os.makedirs(d, exist_ok=True)
        shutil.copy(patch, os.path.join(d, "patch.diff"))
        shutil.copy(demo, os.path.join(d, "demo_test.go.txt"))
        meta = {"id": name, "property": prop, "package_dir": pkgdir, "needs_to_manifest": needs,
                "confirmed": [{"cmd": c, "exit": r} for c, r in ran],
                "demo_failure_excerpt": with_out, "source": "independent sub-agent given only the property text and a scratch worktree"}
        json.dump(meta, open(os.path.join(d, "meta.json"), "w"), indent=1)
        print("CONFIRMED", name)
    finally:
        sh(f"git -C /repo worktree remove --force {wt}", "/")
        shutil.rmtree(wt, ignore_errors=True)
        if not ok:
            print("NOT CONFIRMED", name, ran)

main()
